"""Typing-table translator (C01, C02): every single-step expression/statement form over the wrapper
types is turned into one translation unit, judged by the C++ front end against /repo's current
headers (static_asserts live, precompiled header), and the verdicts -- accept/reject and, for
accepted rows, the wrapper and type kind of the result -- are written to
lean/RlboxModel/GeneratedTyping.lean.  The theorems of Props/C01.lean and Props/C02.lean are proved
about THIS table, so they are re-checked against what the compiler says now on every run."""
import hashlib, json, os, re, subprocess, sys
from concurrent.futures import ThreadPoolExecutor

HERE = os.path.dirname(os.path.dirname(os.path.abspath(__file__)))
WORK = os.path.join(HERE, ".work")

PRE = r'''
#pragma once
#define RLBOX_USE_EXCEPTIONS
#include "vsbx.hpp"
#include <memory>
#include <string>
using namespace rlbox;
struct St { char c; long l; int* p; };
#define sandbox_fields_reflection_tt_class_St(f, g, ...) \
  f(char, c, FIELD_NORMAL, ##__VA_ARGS__) g() f(long, l, FIELD_NORMAL, ##__VA_ARGS__) g() f(int*, p, FIELD_NORMAL, ##__VA_ARGS__) g()
#define sandbox_fields_reflection_tt_allClasses(f, ...) f(St, tt, ##__VA_ARGS__)
rlbox_load_structs_from_library(tt);
using S = rlbox_vsbx<vsbx::AbiA, 16, 8>;
using S2 = rlbox_vsbx<vsbx::AbiB, 16, 8>;     // another sandbox TYPE
enum En { En0, En1 };
using Fn = int (*)(int);
using Fn2 = long (*)(char*);
using Arr = int[4];
// wrapper kind
template<class T> struct wk { static constexpr int v = 0; };
template<class T> struct wk<tainted<T, S>> { static constexpr int v = 1; };
template<class T> struct wk<tainted_volatile<T, S>> { static constexpr int v = 2; };
template<class T> struct wk<tainted_opaque<T, S>> { static constexpr int v = 3; };
template<class T> struct wk<sandbox_callback<T, S>> { static constexpr int v = 4; };
template<class T> struct wk<app_pointer<T, S>> { static constexpr int v = 5; };
template<> struct wk<tainted_boolean_hint> { static constexpr int v = 6; };
template<> struct wk<tainted_int_hint> { static constexpr int v = 7; };
template<> struct wk<void> { static constexpr int v = 8; };
template<class T> struct wk<T*> { static constexpr int v = (wk<std::remove_cv_t<T>>::v >= 1 && wk<std::remove_cv_t<T>>::v <= 7 ? 9 : 0); }; // pointer to a wrapper object
// type kind of the wrapped (or plain) type
template<class T, class = void> struct tk { static constexpr int v = 13; };     // other
template<> struct tk<bool> { static constexpr int v = 1; };
template<class T> struct tk<T, std::enable_if_t<std::is_integral_v<T> && !std::is_same_v<T, bool>>> { static constexpr int v = (sizeof(T) == 1 ? 2 : sizeof(T) == 8 ? (std::is_signed_v<T> ? 3 : 17) : sizeof(T) == 2 ? 16 : 0); }; // int / 1-byte / long-like / ullong-like / short-like
template<class T> struct tk<T, std::enable_if_t<std::is_enum_v<T>>> { static constexpr int v = 4; };
template<class T> struct tk<T, std::enable_if_t<std::is_floating_point_v<T>>> { static constexpr int v = (sizeof(T) == 4 ? 18 : 5); };
template<class T> struct tk<T*, void> {
  using P = std::remove_cv_t<T>;
  static constexpr int v = std::is_function_v<P> ? 10 : std::is_void_v<P> ? 7 : std::is_pointer_v<P> ? 9 : std::is_class_v<P> ? 12 : std::is_same_v<P, char> ? 8 : 6;
};
template<class T, size_t N> struct tk<T[N], void> { static constexpr int v = 11; };
template<class T, size_t N> struct tk<std::array<T, N>, void> { static constexpr int v = 11; };
template<> struct tk<St, void> { static constexpr int v = 14; };
template<class T> struct inner { using type = T; };
template<class T> struct inner<tainted<T, S>> { using type = T; };
template<class T> struct inner<tainted_volatile<T, S>> { using type = T; };
template<class T> struct inner<tainted_opaque<T, S>> { using type = T; };
template<class T> struct inner<sandbox_callback<T, S>> { using type = T; };
template<class T> struct inner<app_pointer<T, S>> { using type = T; };
template<> struct inner<tainted_boolean_hint> { using type = bool; };
template<> struct inner<tainted_int_hint> { using type = int; };
template<class T> using nocvr = std::remove_cv_t<std::remove_reference_t<T>>;
template<class T> constexpr int code_of = wk<nocvr<T>>::v * 100 + (wk<nocvr<T>>::v == 9 ? 0 : tk<std::remove_cv_t<typename inner<nocvr<T>>::type>>::v);
template<int N> struct Kind {};
template<class T> Kind<code_of<T>> kind_of(T&&);
inline Kind<800> kind_void();
void report(Kind<9999>);
void takes_int(int); void takes_bool(bool); void takes_long(long); void takes_double(double); void takes_vp(void*); void takes_ip(int*);
extern int garr[10];
extern rlbox_sandbox<S> sb;
extern rlbox_sandbox<S2> sb2;
int lib_f_int(int); void lib_f_ip(int*); void lib_f_fn(Fn); void lib_f_st(St); int* lib_f_ret_ip(); void lib_f_void();
'''

TYPES = {'int': 'int', 'bool': 'bool', 'uchar': 'unsigned char', 'long': 'long', 'enum': 'En', 'double': 'double', 'ip': 'int*', 'vp': 'void*',
         'cp': 'const char*', 'ipp': 'int**', 'fn': 'Fn', 'arr': 'Arr', 'st': 'St', 'stp': 'St*', 'null': 'std::nullptr_t',
         'short': 'short', 'ullong': 'unsigned long long', 'float': 'float'}
KCODE = {'int': 0, 'bool': 1, 'uchar': 2, 'long': 3, 'enum': 4, 'double': 5, 'ip': 6, 'vp': 7, 'cp': 8, 'ipp': 9, 'fn': 10, 'arr': 11, 'stp': 12, 'other': 13, 'st': 14, 'null': 15,
         'short': 16, 'ullong': 17, 'float': 18}
WCODE = {'plain': 0, 'tainted': 1, 'tvol': 2, 'opaque': 3, 'callback': 4, 'appptr': 5, 'bhint': 6, 'ihint': 7, 'void': 8, 'ptrwrap': 9}


def decl(w, t, n):
    T = TYPES[t]
    if w == 'plain':
        return f'{T}& {n}'
    if w == 'bhint':
        return f'tainted_boolean_hint& {n}'
    if w == 'ihint':
        return f'tainted_int_hint& {n}'
    W = {'tainted': 'tainted', 'tvol': 'tainted_volatile', 'opaque': 'tainted_opaque', 'callback': 'sandbox_callback', 'appptr': 'app_pointer'}[w]
    return f'{W}<{T},S>& {n}'


# rule -> (body, result is fixed 'plain' for conversion contexts / statement forms that extract a plain value)
UN = {
    # conversion contexts: if accepted, a plain value was extracted
    'init_int': ('int x = a; (void)x;', 'plain'), 'init_bool': ('bool x = a; (void)x;', 'plain'), 'init_long': ('long x = a; (void)x;', 'plain'),
    'init_double': ('double x = a; (void)x;', 'plain'), 'init_vp': ('void* x = a; (void)x;', 'plain'), 'init_ip': ('int* x = a; (void)x;', 'plain'),
    'assign_int': ('int x; x = a; (void)x;', 'plain'), 'return_int': ('return a;', 'plain'),
    'if': ('if (a) {}', 'plain'), 'while': ('while (a) { break; }', 'plain'), 'tern': ('int x = a ? 1 : 2; (void)x;', 'plain'),
    'switch': ('switch (a) { default: break; }', 'plain'), 'subscr_idx': ('int x = garr[a]; (void)x;', 'plain'),
    'arg_int': ('takes_int(a);', 'plain'), 'arg_bool': ('takes_bool(a);', 'plain'), 'arg_long': ('takes_long(a);', 'plain'),
    'arg_double': ('takes_double(a);', 'plain'), 'arg_vp': ('takes_vp(a);', 'plain'), 'arg_ip': ('takes_ip(a);', 'plain'),
    'scast_int': ('auto x = static_cast<int>(a); (void)x;', 'plain'), 'scast_bool': ('auto x = static_cast<bool>(a); (void)x;', 'plain'),
    'scast_long': ('auto x = static_cast<long>(a); (void)x;', 'plain'), 'ccast_long': ('auto x = (long)a; (void)x;', 'plain'),
    'ccast_vp': ('auto x = (void*)a; (void)x;', 'plain'), 'rcast_long': ('auto x = reinterpret_cast<long>(a); (void)x;', 'plain'),
    # operators / members: the result kind is observed
    'init_auto': ('auto x = a; report(kind_of(x));', None),
    'neg': ('report(kind_of(-a));', None), 'plus': ('report(kind_of(+a));', None), 'bnot': ('report(kind_of(~a));', None), 'lnot': ('report(kind_of(!a));', None),
    'deref': ('report(kind_of(*a));', None), 'addr': ('report(kind_of(&a));', None),
    'preinc': ('report(kind_of(++a));', None), 'predec': ('report(kind_of(--a));', None), 'postinc': ('report(kind_of(a++));', None), 'postdec': ('report(kind_of(a--));', None),
    'idx0': ('report(kind_of(a[0]));', None), 'call': ('report(kind_of(a(1)));', None), 'arrow_l': ('report(kind_of(a->l));', None), 'dot_l': ('report(kind_of(a.l));', None),
    'eq_null': ('report(kind_of(a == nullptr));', None), 'ne_null': ('report(kind_of(a != nullptr));', None), 'and_true': ('bool t = true; report(kind_of(a && t));', None),
    'm_unverified': ('report(kind_of(a.UNSAFE_unverified()));', None), 'm_sandboxed': ('report(kind_of(a.UNSAFE_sandboxed(sb)));', None),
    'm_safe_because': ('report(kind_of(a.unverified_safe_because("r")));', None), 'm_safe_ptr_because': ('report(kind_of(a.unverified_safe_pointer_because(1,"r")));', None),
    'm_internal': ('report(kind_of(a.INTERNAL_unverified_safe()));', None),
    'm_cav': ('report(kind_of(a.copy_and_verify([](auto v){ return 0; })));', None), 'm_cav_addr': ('report(kind_of(a.copy_and_verify_address([](uintptr_t v){ return 0; })));', None),
    'm_cav_range': ('report(kind_of(a.copy_and_verify_range([](auto v){ return 0; }, 1)));', None),
    'm_cav_string': ('report(kind_of(a.copy_and_verify_string([](std::string v){ return 0; })));', None),
    'm_cav_buf': ('report(kind_of(a.copy_and_verify_buffer_address([](uintptr_t v){ return 0; }, 1)));', None),
    'm_to_opaque': ('report(kind_of(a.to_opaque()));', None), 'f_from_opaque': ('report(kind_of(from_opaque(a)));', None), 'm_set_zero': ('a.set_zero(); report(kind_void());', None),
    'm_impl': ('report(kind_of(a.impl()));', None), 'm_to_tainted': ('report(kind_of(a.to_tainted()));', None), 'm_is_unreg': ('report(kind_of(a.is_unregistered()));', None),
    'm_get_raw_value': ('report(kind_of(a.get_raw_value()));', None), 'm_get_raw_sandbox_value': ('report(kind_of(a.get_raw_sandbox_value()));', None),
    'm_data': ('report(kind_of(a.data));', None), 'm_val': ('report(kind_of(a.val));', None),
    'sb_rcast_vp': ('report(kind_of(sandbox_reinterpret_cast<void*>(a)));', None), 'sb_scast_long': ('report(kind_of(sandbox_static_cast<long>(a)));', None),
    'sb_ccast': ('report(kind_of(sandbox_const_cast<int*>(a)));', None),
    'assign_self_plain_int': ('a = 5; report(kind_void());', None), 'assign_null': ('a = nullptr; report(kind_void());', None),
    'free': ('sb.free_in_sandbox(a); report(kind_void());', None),
    'memcmp_hint': ('report(kind_of(rlbox::memcmp(sb, a, a, 1u)));', None),
}
BINOPS = ['+', '-', '*', '/', '%', '^', '&', '|', '<<', '>>', '&&', '||', '==', '!=', '<', '<=', '>', '>=', '=', '+=', '<<=']


def wrappers_for(t):
    ws = ['tainted', 'tvol', 'opaque']
    if t == 'fn':
        ws.append('callback')
    if t in ('ip', 'vp'):
        ws.append('appptr')
    return ws


def all_rows():
    rows = []
    kinds = [k for k in TYPES if k != 'null']
    for t in kinds:
        for w in wrappers_for(t):
            for r in UN:
                rows.append(('un', r, [(w, t)]))
    for w in ('bhint', 'ihint'):
        for r in UN:
            rows.append(('un', r, [(w, 'bool' if w == 'bhint' else 'int')]))
    lhs = [(w, t) for w in ('tainted', 'tvol', 'plain') for t in ('int', 'bool', 'uchar', 'long', 'enum', 'double', 'ip', 'vp', 'fn', 'arr', 'st', 'short', 'ullong', 'float')] + [('bhint', 'bool'), ('ihint', 'int')]
    # the null pointer constant on the LEFT (`nullptr == x`), and opaque wrappers as left operands (they define no operators at all)
    lhs += [('plain', 'null'), ('opaque', 'int'), ('opaque', 'ip')]
    rhs = [('plain', 'int'), ('plain', 'double'), ('plain', 'ip'), ('plain', 'null'), ('plain', 'enum'), ('plain', 'bool'), ('plain', 'long'), ('tainted', 'int'), ('tainted', 'bool'),
           ('tainted', 'double'), ('tainted', 'ip'), ('tainted', 'ullong'), ('tvol', 'int'), ('tvol', 'ip'), ('tvol', 'short'), ('bhint', 'bool'), ('opaque', 'int'), ('opaque', 'ip')]
    for l in lhs:
        for o in BINOPS:
            for r in rhs:
                if l[0] == 'plain' and r[0] == 'plain':
                    continue
                rows.append(('bin', o, [l, r]))
    return rows


# ---- C02: sinks through which an application pointer / foreign wrapper could enter a sandbox -------
# name -> (function parameters, body, forbidden?)   forbidden rows must NOT compile; the others are positive controls
C02 = {
    'tainted_ptr_init_from_raw': ('int* raw', 'tainted<int*, S> t = raw; (void)t;', True),
    'tainted_ptr_ctor_from_raw': ('int* raw', 'tainted<int*, S> t(raw); (void)t;', True),
    'tainted_ptr_assign_from_raw': ('int* raw, tainted<int*, S>& t', 't = raw;', True),
    'tainted_fn_init_from_raw': ('Fn raw', 'tainted<Fn, S> t = raw; (void)t;', True),
    'tainted_vp_init_from_raw': ('void* raw', 'tainted<void*, S> t = raw; (void)t;', True),
    'tvol_ptr_assign_from_raw': ('int* raw, tainted_volatile<int*, S>& v', 'v = raw;', True),
    'tvol_fn_assign_from_raw': ('Fn raw, tainted_volatile<Fn, S>& v', 'v = raw;', True),
    'tvol_ptrarr_assign_from_raw_carr': ('int* (&raw)[4], tainted_volatile<int*[4], S>& v', 'v = raw;', True),
    'tvol_ptrarr_assign_from_raw_stdarr': ('std::array<int*, 4>& raw, tainted_volatile<int*[4], S>& v', 'v = raw;', True),
    'tvol_int_assign_from_raw_ptr': ('int* raw, tainted_volatile<long, S>& v', 'v = raw;', True),
    'tainted_int_init_from_raw_ptr': ('int* raw', 'tainted<long, S> t = raw; (void)t;', True),
    'tainted_from_other_sandbox': ('tainted<int*, S2>& o', 'tainted<int*, S> t = o; (void)t;', True),
    'tvol_assign_from_other_sandbox': ('tainted<int*, S2>& o, tainted_volatile<int*, S>& v', 'v = o;', True),
    'invoke_raw_ptr_arg': ('int* raw', 'sb.INTERNAL_invoke_with_func_ptr<decltype(lib_f_ip)>("f", nullptr, raw);', True),
    'invoke_raw_fn_arg': ('Fn raw', 'sb.INTERNAL_invoke_with_func_ptr<decltype(lib_f_fn)>("f", nullptr, raw);', True),
    'invoke_raw_struct_arg': ('St& raw', 'sb.INTERNAL_invoke_with_func_ptr<decltype(lib_f_st)>("f", nullptr, raw);', True),
    'invoke_other_sandbox_arg': ('tainted<int*, S2>& o', 'sb.INTERNAL_invoke_with_func_ptr<decltype(lib_f_ip)>("f", nullptr, o);', True),
    'invoke_other_sandbox_int_arg': ('tainted<int, S2>& o', 'sb.INTERNAL_invoke_with_func_ptr<decltype(lib_f_int)>("f", nullptr, o);', True),
    'invoke_wrong_pointee_arg': ('tainted<char*, S>& o', 'sb.INTERNAL_invoke_with_func_ptr<decltype(lib_f_ip)>("f", nullptr, o);', None),
    'invoke_callback_wrong_sig': ('sandbox_callback<Fn2, S>& cb', 'sb.INTERNAL_invoke_with_func_ptr<decltype(lib_f_fn)>("f", nullptr, cb);', True),
    'register_cb_no_sandbox_param': ('', 'auto cb = sb.register_callback(+[](tainted<int, S> a) -> tainted<int, S> { return a; }); (void)cb;', True),
    'register_cb_no_params': ('', 'auto cb = sb.register_callback(+[]() -> tainted<int, S> { return 0; }); (void)cb;', True),
    'register_cb_plain_param': ('', 'auto cb = sb.register_callback(+[](rlbox_sandbox<S>&, int a) -> tainted<int, S> { return a; }); (void)cb;', True),
    'register_cb_raw_ptr_param': ('', 'auto cb = sb.register_callback(+[](rlbox_sandbox<S>&, int* a) -> void { (void)a; }); (void)cb;', True),
    'register_cb_plain_return': ('', 'auto cb = sb.register_callback(+[](rlbox_sandbox<S>&, tainted<int, S> a) -> int { return 0; }); (void)cb;', True),
    'register_cb_raw_ptr_return': ('', 'auto cb = sb.register_callback(+[](rlbox_sandbox<S>&, tainted<int, S> a) -> int* { return nullptr; }); (void)cb;', True),
    'register_cb_array_param': ('', 'auto cb = sb.register_callback(+[](rlbox_sandbox<S>&, tainted<int[4], S> a) -> void { (void)a; }); (void)cb;', True),
    'register_cb_other_sandbox_ref': ('', 'auto cb = sb.register_callback(+[](rlbox_sandbox<S2>&, tainted<int, S> a) -> void { (void)a; }); (void)cb;', True),
    'register_cb_other_sandbox_param': ('', 'auto cb = sb.register_callback(+[](rlbox_sandbox<S>&, tainted<int, S2> a) -> void { (void)a; }); (void)cb;', True),
    'register_cb_hint_param': ('', 'auto cb = sb.register_callback(+[](rlbox_sandbox<S>&, tainted_boolean_hint a) -> void { (void)a; }); (void)cb;', True),
    'callback_into_tainted': ('sandbox_callback<Fn, S>& cb', 'tainted<Fn, S> t = cb; (void)t;', True),
    'callback_into_tvol_wrong_type': ('sandbox_callback<Fn2, S>& cb, tainted_volatile<Fn, S>& v', 'v = cb;', True),
    'fn_address_into_tvol_wrong_type': ('tainted<Fn2, S>& f, tainted_volatile<Fn, S>& v', 'v = f;', True),
    'assign_raw_pointer_wrong_type': ('char* raw, tainted<int*, S>& t', 't.assign_raw_pointer(sb, raw);', None),
    'assign_raw_pointer_non_pointer': ('long raw, tainted<int*, S>& t', 't.assign_raw_pointer(sb, raw);', True),
    'accept_pointer_non_pointer': ('long raw', 'auto t = sb.UNSAFE_accept_pointer(raw); (void)t;', True),
    'free_raw_pointer': ('int* raw', 'sb.free_in_sandbox(raw);', True),
    'memcpy_raw_dest': ('char* raw, tainted<char*, S>& s', 'rlbox::memcpy(sb, raw, s, 4u);', None),
    'memset_raw_dest': ('char* raw', 'rlbox::memset(sb, raw, 0, 4u);', None),
    'tainted_from_other_sandbox_tvol': ('tainted_volatile<int*, S2>& o', 'tainted<int*, S> t = o; (void)t;', True),
    'tainted_int_from_other_sandbox': ('tainted<int, S2>& o', 'tainted<int, S> t = o; (void)t;', True),
    'tainted_assign_from_other_sandbox': ('tainted<int*, S2>& o, tainted<int*, S>& t', 't = o;', True),
    'tvol_assign_from_other_sandbox_tvol': ('tainted_volatile<int*, S2>& o, tainted_volatile<int*, S>& v', 'v = o;', True),
    'tvol_int_assign_from_other_sandbox': ('tainted<int, S2>& o, tainted_volatile<int, S>& v', 'v = o;', True),
    'tvol_int_assign_from_other_sandbox_tvol': ('tainted_volatile<int, S2>& o, tainted_volatile<int, S>& v', 'v = o;', True),
    'tvol_arr_assign_from_other_sandbox': ('tainted<int*[4], S2>& o, tainted_volatile<int*[4], S>& v', 'v = o;', True),
    'tvol_struct_assign_from_other_sandbox': ('tainted<St, S2>& o, tainted_volatile<St, S>& v', 'v = o;', True),
    'tvol_structfield_assign_from_other_sandbox': ('tainted<int*, S2>& o, tainted_volatile<St, S>& v', 'v.p = o;', True),
    'callback_other_sandbox_into_tvol': ('sandbox_callback<Fn, S2>& cb, tainted_volatile<Fn, S>& v', 'v = cb;', True),
    'invoke_other_sandbox_callback_arg': ('sandbox_callback<Fn, S2>& cb', 'sb.INTERNAL_invoke_with_func_ptr<decltype(lib_f_fn)>("f", nullptr, cb);', True),
    'invoke_other_sandbox_opaque_arg': ('tainted_opaque<int*, S2>& o', 'sb.INTERNAL_invoke_with_func_ptr<decltype(lib_f_ip)>("f", nullptr, o);', True),
    'invoke_other_sandbox_tvol_arg': ('tainted_volatile<int, S2>& o', 'sb.INTERNAL_invoke_with_func_ptr<decltype(lib_f_int)>("f", nullptr, o);', True),
    'invoke_other_sandbox_struct_arg': ('tainted<St, S2>& o', 'sb.INTERNAL_invoke_with_func_ptr<decltype(lib_f_st)>("f", nullptr, o);', True),
    'invoke_fn_address_wrong_sig': ('tainted<Fn2, S>& f', 'sb.INTERNAL_invoke_with_func_ptr<decltype(lib_f_fn)>("f", nullptr, f);', True),
    'fn_address_into_tainted_wrong_type': ('tainted<Fn2, S>& f', 'tainted<Fn, S> t = f; (void)t;', True),
    'fn_address_tvol_into_tvol_wrong_type': ('tainted_volatile<Fn2, S>& f, tainted_volatile<Fn, S>& v', 'v = f;', True),
    'register_cb_tvol_param': ('', 'auto cb = sb.register_callback(+[](rlbox_sandbox<S>&, tainted_volatile<int, S>& a) -> void { (void)a; }); (void)cb;', True),
    'register_cb_other_sandbox_return': ('', 'auto cb = sb.register_callback(+[](rlbox_sandbox<S>&, tainted<int, S> a) -> tainted<int, S2> { return 0; }); (void)cb;', True),
    'register_cb_raw_fn_param': ('', 'auto cb = sb.register_callback(+[](rlbox_sandbox<S>&, Fn a) -> void { (void)a; }); (void)cb;', True),
    'register_cb_sandbox_by_value': ('', 'auto cb = sb.register_callback(+[](rlbox_sandbox<S>*, tainted<int, S> a) -> void { (void)a; }); (void)cb;', True),
    'callback_return_raw_ptr_via_tainted': ('int* raw', 'tainted<int*, S> t{raw}; (void)t;', True),
    'tainted_struct_field_from_raw': ('int* raw, tainted<St, S>& s', 's.p = raw;', True),
    'tvol_struct_field_from_raw': ('int* raw, tainted_volatile<St, S>& s', 's.p = raw;', True),
    'tainted_ptrarr_elem_from_raw': ('int* raw, tainted<int*[4], S>& a', 'a[0] = raw;', True),
    'tvol_ptrarr_elem_from_raw': ('int* raw, tainted_volatile<int*[4], S>& a', 'a[0] = raw;', True),
    'tvol_deref_store_raw': ('int* raw, tainted<int**, S>& pp', '*pp = raw;', True),
    'tvol_index_store_raw': ('int* raw, tainted<int**, S>& pp', 'pp[1] = raw;', True),
    'invoke_raw_array_arg': ('int (&raw)[4]', 'sb.INTERNAL_invoke_with_func_ptr<decltype(lib_f_ip)>("f", nullptr, raw);', True),
    'invoke_raw_string_arg': ('', 'sb.INTERNAL_invoke_with_func_ptr<void(const char*)>("f", nullptr, "literal");', True),
    'invoke_app_pointer_wrong_sandbox': ('app_pointer<int*, S2>& ap', 'sb.INTERNAL_invoke_with_func_ptr<decltype(lib_f_ip)>("f", nullptr, ap.to_tainted());', True),
    'internal_factory_raw_ptr': ('int* raw', 'auto t = tainted<int*, S>::internal_factory(raw); (void)t;', True),
    'internal_factory_raw_fn': ('Fn raw', 'auto t = tainted<Fn, S>::internal_factory(raw); (void)t;', True),
    'tagged_ctor_raw_ptr': ('int* raw', 'const void* tag = nullptr; tainted<int*, S> t(raw, tag); (void)t;', True),
    'tainted_raw_value_ref_write': ('int* raw, tainted<int*, S>& t', 't.get_raw_value_ref() = raw;', True),
    'tvol_sandbox_value_ref_write': ('tainted_volatile<int*, S>& v', 'v.get_sandbox_value_ref() = 0x1234;', True),
    'tvol_default_ctor': ('', 'tainted_volatile<int*, S> v; (void)v;', True),
    'tvol_copy_ctor': ('tainted_volatile<int*, S>& o', 'tainted_volatile<int*, S> v(o); (void)v;', True),
    'tainted_reinterpret_from_raw': ('int* raw', 'auto t = sandbox_reinterpret_cast<int*>(raw); (void)t;', True),
    # an INTEGER (which may hold any application address) turned into a tainted pointer by one of the casts
    'reinterpret_cast_int_to_ptr': ('tainted<uintptr_t, S>& o', 'auto t = sandbox_reinterpret_cast<int*>(o); (void)t;', True),
    'reinterpret_cast_tvol_int_to_ptr': ('tainted_volatile<unsigned long, S>& o', 'auto t = sandbox_reinterpret_cast<int*>(o); (void)t;', True),
    'static_cast_int_to_ptr': ('tainted<uintptr_t, S>& o', 'auto t = sandbox_static_cast<int*>(o); (void)t;', True),
    'const_cast_int_to_ptr': ('tainted<uintptr_t, S>& o', 'auto t = sandbox_const_cast<int*>(o); (void)t;', True),
    'tainted_ptr_init_from_tainted_int': ('tainted<uintptr_t, S>& o', 'tainted<int*, S> t = o; (void)t;', True),
    # pointer arithmetic whose POINTER operand is a plain application pointer: the result would be a tainted pointer built from it
    'tainted_int_plus_plain_ptr': ('tainted<long, S>& o, int* raw', 'auto t = o + raw; (void)t;', True),
    'tvol_int_plus_plain_ptr': ('tainted_volatile<long, S>& o, int* raw', 'auto t = o + raw; (void)t;', True),
    'plain_ptr_plus_tainted_int': ('tainted<long, S>& o, int* raw', 'auto t = raw + o; (void)t;', True),
    'plain_ptr_minus_tainted_int': ('tainted<long, S>& o, int* raw', 'auto t = raw - o; (void)t;', True),
    # (information only: a tainted INTEGER stored into a pointer cell becomes the guest REPRESENTATION (range-checked offset), not an application address)
    'tvol_ptr_assign_from_tainted_int': ('tainted<uintptr_t, S>& o, tainted_volatile<int*, S>& v', 'v = o;', None),
    'tainted_ptr_memcpy_src_raw_into_sbx_ok': ('tainted<char*, S>& d, char* raw', 'rlbox::memcpy(sb, d, raw, 4u);', None),
    # positive controls (must compile)
    'ok_tainted_ptr_copy': ('tainted<int*, S>& o', 'tainted<int*, S> t = o; (void)t;', False),
    'ok_tainted_ptr_null': ('', 'tainted<int*, S> t = nullptr; (void)t;', False),
    'ok_tvol_assign_tainted_ptr': ('tainted<int*, S>& o, tainted_volatile<int*, S>& v', 'v = o;', False),
    'ok_tvol_assign_null': ('tainted_volatile<int*, S>& v', 'v = nullptr;', False),
    'ok_tvol_assign_ptrarr_tainted': ('tainted<int*[4], S>& o, tainted_volatile<int*[4], S>& v', 'v = o;', False),
    'ok_invoke_tainted_ptr': ('tainted<int*, S>& o', 'sb.INTERNAL_invoke_with_func_ptr<decltype(lib_f_ip)>("f", nullptr, o);', False),
    'ok_invoke_opaque_ptr': ('tainted_opaque<int*, S>& o', 'sb.INTERNAL_invoke_with_func_ptr<decltype(lib_f_ip)>("f", nullptr, o);', False),
    'ok_invoke_null': ('', 'sb.INTERNAL_invoke_with_func_ptr<decltype(lib_f_ip)>("f", nullptr, nullptr);', False),
    'ok_invoke_plain_int': ('', 'sb.INTERNAL_invoke_with_func_ptr<decltype(lib_f_int)>("f", nullptr, 5);', False),
    'ok_invoke_callback': ('sandbox_callback<Fn, S>& cb', 'sb.INTERNAL_invoke_with_func_ptr<decltype(lib_f_fn)>("f", nullptr, cb);', False),
    'ok_invoke_struct_tainted': ('tainted<St, S>& s', 'sb.INTERNAL_invoke_with_func_ptr<decltype(lib_f_st)>("f", nullptr, s);', False),
    'ok_register_cb': ('', 'auto cb = sb.register_callback(+[](rlbox_sandbox<S>&, tainted<int, S> a, tainted_opaque<int*, S> b) -> tainted<int, S> { (void)b; return a; }); (void)cb;', False),
    'ok_register_cb_void': ('', 'auto cb = sb.register_callback(+[](rlbox_sandbox<S>&) -> void {}); (void)cb;', False),
    'ok_callback_into_tvol': ('sandbox_callback<Fn, S>& cb, tainted_volatile<Fn, S>& v', 'v = cb;', False),
    'ok_fn_address_into_tvol': ('tainted<Fn, S>& f, tainted_volatile<Fn, S>& v', 'v = f;', False),
    'ok_assign_raw_pointer': ('int* raw, tainted<int*, S>& t', 't.assign_raw_pointer(sb, raw);', False),
    'ok_assign_raw_pointer_tvol': ('int* raw, tainted_volatile<int*, S>& v', 'v.assign_raw_pointer(sb, raw);', False),
    'ok_accept_pointer': ('int* raw', 'auto t = sb.UNSAFE_accept_pointer(raw); (void)t;', False),
    'ok_free_tainted': ('tainted<int*, S>& t', 'sb.free_in_sandbox(t);', False),
    'ok_tvol_int_assign_tainted': ('tainted<int, S>& o, tainted_volatile<int, S>& v', 'v = o;', False),
    'ok_tvol_assign_tvol': ('tainted_volatile<int*, S>& o, tainted_volatile<int*, S>& v', 'v = o;', False),
    'ok_tvol_struct_assign_tainted': ('tainted<St, S>& o, tainted_volatile<St, S>& v', 'v = o;', False),
    'ok_tvol_structfield_assign_tainted': ('tainted<int*, S>& o, tainted_volatile<St, S>& v', 'v.p = o;', False),
    'ok_tvol_deref_store_tainted': ('tainted<int*, S>& o, tainted<int**, S>& pp', '*pp = o;', False),
    'ok_tvol_fn_assign_tvol': ('tainted_volatile<Fn, S>& f, tainted_volatile<Fn, S>& v', 'v = f;', False),
    'ok_invoke_fn_address': ('tainted<Fn, S>& f', 'sb.INTERNAL_invoke_with_func_ptr<decltype(lib_f_fn)>("f", nullptr, f);', False),
    'ok_invoke_tvol_int': ('tainted_volatile<int, S>& o', 'sb.INTERNAL_invoke_with_func_ptr<decltype(lib_f_int)>("f", nullptr, o);', False),
    'ok_invoke_app_pointer': ('app_pointer<int*, S>& ap', 'sb.INTERNAL_invoke_with_func_ptr<decltype(lib_f_ip)>("f", nullptr, ap.to_tainted());', False),
    'ok_tainted_struct_field_tainted': ('tainted<int*, S>& o, tainted<St, S>& s', 's.p = o;', False),
    'ok_memcpy': ('tainted<char*, S>& d, const char* src', 'rlbox::memcpy(sb, d, src, 4u);', False),
}


def tu_source(row):
    kind, rule, ops = row
    if kind == 'un':
        body, fixed = UN[rule]
        ret = 'int' if rule == 'return_int' else 'void'
        return f'{ret} f({decl(ops[0][0], ops[0][1], "a")}) {{ {body} }}\n'
    if kind == 'bin':
        return f'void f({decl(ops[0][0], ops[0][1], "a")}, {decl(ops[1][0], ops[1][1], "b")}) {{ report(kind_of(a {rule} b)); }}\n'
    params, body, _ = C02[rule]
    return f'void f({params}) {{ {body} }}\n'


def swap_sandboxes(text):
    """the same program with the roles of the two sandbox TYPES exchanged (S: 32-bit guest pointers,
    S2: 64-bit guest pointers, as wide as the application's)"""
    text = re.sub(r"\bS2\b", "\x00", text)
    text = re.sub(r"\bsb2\b", "\x01", text)
    text = re.sub(r"\bS\b", "S2", text)
    text = re.sub(r"\bsb\b", "sb2", text)
    return text.replace("\x00", "S").replace("\x01", "sb")


for _n in list(C02):
    _p, _b, _f = C02[_n]
    C02[_n + "@B"] = (swap_sandboxes(_p), swap_sandboxes(_b), _f)


def row_id(row):
    kind, rule, ops = row
    return kind + ":" + rule + ":" + ",".join(f"{w}.{t}" for w, t in ops)


def judge(args):
    row, pch_dir, inc = args
    src = tu_source(row)
    h = hashlib.sha1((row_id(row)).encode()).hexdigest()[:16]
    fn = os.path.join(pch_dir, "tu", h + ".cpp")
    with open(fn, "w") as f:
        f.write(src)
    p = subprocess.run(["g++", "-std=c++17", "-fsyntax-only", "-fmax-errors=30", "-w", "-I" + inc, "-I" + os.path.join(HERE, "harness"), "-I" + pch_dir,
                        "-include", "pre.hpp", fn], capture_output=True, text=True)
    os.remove(fn)
    if p.returncode == 0:
        return ("accept", None, "")
    errs = [l for l in p.stderr.splitlines() if " error: " in l]
    m = re.search(r"Kind<(\d+)>", p.stderr)
    if m and m.group(1) != "9999" and errs and all(("report" in e or "Kind<" in e) for e in errs):
        return ("accept", int(m.group(1)), "")
    return ("reject", None, (errs[0].split(" error: ")[1][:160] if errs else "?"))


def build_table(repo, quick_subset=None):
    inc = os.path.join(repo, "code", "include")
    files = []
    for root, _, fs in os.walk(inc):
        files += [os.path.join(root, f) for f in fs]
    files += [os.path.join(HERE, "harness", "vsbx.hpp"), os.path.abspath(__file__)]
    hh = hashlib.sha256()
    for p in sorted(files):
        hh.update(p.encode()); hh.update(open(p, "rb").read())
    key = hh.hexdigest()[:24]
    os.makedirs(os.path.join(WORK, "typing"), exist_ok=True)
    cache = os.path.join(WORK, "typing", f"table-{key}.json")
    if os.path.exists(cache):
        return json.load(open(cache)), True
    pch_dir = os.path.join(WORK, "typing", f"pch-{os.getpid()}")
    os.makedirs(os.path.join(pch_dir, "tu"), exist_ok=True)
    with open(os.path.join(pch_dir, "pre.hpp"), "w") as f:
        f.write(PRE)
    r = subprocess.run(["g++", "-std=c++17", "-w", "-x", "c++-header", "-I" + inc, "-I" + os.path.join(HERE, "harness"), os.path.join(pch_dir, "pre.hpp"),
                        "-o", os.path.join(pch_dir, "pre.hpp.gch")], capture_output=True, text=True)
    if r.returncode != 0:
        import shutil
        shutil.rmtree(pch_dir, ignore_errors=True)
        return {"error": "precompiled header does not build: " + r.stderr[-2000:]}, False
    rows = all_rows() + [('c02', name, []) for name in C02]
    with ThreadPoolExecutor(os.cpu_count() or 4) as ex:
        res = list(ex.map(judge, [(row, pch_dir, inc) for row in rows]))
    import shutil
    shutil.rmtree(pch_dir, ignore_errors=True)
    out = {"rows": []}
    for row, (v, k, msg) in zip(rows, res):
        kind, rule, ops = row
        fixed = UN[rule][1] if kind == 'un' else None
        out["rows"].append({"kind": kind, "rule": rule, "ops": ops, "verdict": v, "code": k, "fixed": fixed, "msg": msg})
    # keep only the newest cache file
    for f in os.listdir(os.path.join(WORK, "typing")):
        if f.startswith("table-") and f != os.path.basename(cache):
            os.remove(os.path.join(WORK, "typing", f))
    json.dump(out, open(cache, "w"))
    return out, False


RULES = sorted(UN) + ["bin" + o for o in BINOPS]


def rule_code(kind, rule):
    return RULES.index(rule if kind == 'un' else "bin" + rule)


def result_of(r):
    """(wrapper code, kind code) of an accepted row"""
    if r["fixed"] == 'plain':
        return (0, 13)
    if r["code"] is None:
        return (8, 13)
    return (r["code"] // 100, r["code"] % 100)


def to_lean(table):
    L = ["/-! GENERATED by gen/typing_table.py from the C++ front end's verdicts on /repo's current headers. Do not edit. -/",
         "namespace Rlbox.GeneratedTyping",
         "/-- rule names; a row refers to a rule by its index -/",
         "def ruleNames : List String := [" + ", ".join('"%s"' % r for r in RULES) + "]",
         "/-- accepted single-step rows: (rule, operands as (wrapper, kind) codes, result (wrapper, kind)) -/",
         "def accepted : List (Nat × List (Nat × Nat) × (Nat × Nat)) := ["]
    acc = []
    nrej = 0
    for r in table["rows"]:
        if r["kind"] == 'c02':
            continue
        if r["verdict"] != "accept":
            nrej += 1
            continue
        ops = ", ".join(f"({WCODE[w]}, {KCODE[t]})" for w, t in r["ops"])
        res = result_of(r)
        acc.append(f"  ({rule_code(r['kind'], r['rule'])}, [{ops}], ({res[0]}, {res[1]}))")
    # (chunked: one huge list literal exceeds the elaborator's recursion depth)
    L.pop()   # the header line of the single list
    chunks = [acc[i:i + 800] for i in range(0, len(acc), 800)] or [[]]
    for ci, ch in enumerate(chunks):
        L.append(f"def accepted{ci} : List (Nat × List (Nat × Nat) × (Nat × Nat)) := [")
        L.append(",\n".join(ch))
        L.append("]")
    L.append("/-- accepted single-step rows: (rule, operands as (wrapper, kind) codes, result (wrapper, kind)) -/")
    L.append("def accepted : List (Nat × List (Nat × Nat) × (Nat × Nat)) := " + " ++ ".join(f"accepted{ci}" for ci in range(len(chunks))))
    L.append(f"def rejectedCount : Nat := {nrej}")
    L.append("/-- C02 sinks: (name, forbidden, accepted by the compiler) -/")
    L.append("def c02 : List (String × Bool × Bool) := [")
    L.append(",\n".join(f'  ("{r["rule"]}", {"true" if C02[r["rule"]][2] else "false"}, {"true" if r["verdict"] == "accept" else "false"})' for r in table["rows"] if r["kind"] == 'c02' and C02[r["rule"]][2] is not None))
    L.append("]")
    L.append("/-- neighbouring shapes outside C02's statement, recorded for information only: (name, accepted) -/")
    L.append("def c02info : List (String × Bool) := [")
    L.append(",\n".join(f'  ("{r["rule"]}", {"true" if r["verdict"] == "accept" else "false"})' for r in table["rows"] if r["kind"] == 'c02' and C02[r["rule"]][2] is None))
    L.append("]")
    L.append("end Rlbox.GeneratedTyping")
    return "\n".join(L) + "\n"


def generate(repo="/repo"):
    table, cached = build_table(repo)
    if "error" in table:
        return None, table, cached
    return to_lean(table), table, cached


if __name__ == "__main__":
    import time
    t0 = time.time()
    text, table, cached = generate(sys.argv[1] if len(sys.argv) > 1 else "/repo")
    if text is None:
        print(table["error"]); sys.exit(1)
    path = os.path.join(HERE, "lean", "RlboxModel", "GeneratedTyping.lean")
    open(path, "w").write(text)
    rows = table["rows"]
    print(f"{len(rows)} rows, {sum(1 for r in rows if r['verdict'] == 'accept')} accepted, cached={cached}, {time.time() - t0:.1f}s")
