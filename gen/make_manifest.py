#!/usr/bin/env python3
"""Writes /verif/MANIFEST.json from the table below (one place to keep the 20 entries consistent)."""
import json, os
HERE = os.path.dirname(os.path.dirname(os.path.abspath(__file__)))

NOTE = ("Trusted: Lean 4.33 kernel (axioms propext/Classical.choice/Quot.sound only, audited by #print axioms each run; no sorry, "
        "no native_decide); the hand-written model is tied to /repo by the correspondence check of each run (differential execution of "
        "the real headers on the vsbx backend vs the model driver) and by facts regenerated from the source; C++ semantics and machine code "
        "are reached only through that execution. ")

CHECKS = {
    "C01": dict(
        engine="typing", design_ref="DESIGN.md §6 C01",
        technique="Lean 4 theorem by mutual structural induction over expression trees of any depth (Typing.taint_preserved) instantiated on a verdict table REGENERATED from the C++ compiler on every run (translator gen/typing_table.py; table obligations by decide +kernel) + compositional spot check compiler vs model typeOf",
        text=("Proof: C01_taint_preserved (for every expression tree over the wrapper API -- 69 unary/conversion/member/cast rules, 21 binary operators with wrapped, plain, null-constant and opaque operands on either side, leaves of 7 wrapper kinds x 14 type kinds, ANY depth -- "
              "if it compiles and still carries sandbox data its type is not plain, unless the step is a named unwrapper, a null test of a tainted pointer or is_unregistered), C01_hint (comparisons with "
              "sandbox-resident data or hints yield only hints), C01_hint_not_verifiable, C01_opaque_inert, C01_no_raw_access. The single-step table (14k translation units: accept/reject and decltype of the result) "
              "is regenerated from g++ on the current headers each run and the table obligations table_safe / table_ops_nonvoid are re-proved by the kernel; a broken obligation is located as a concrete translation unit. "
              "Compositionality is spot-checked on random depth-2..4 trees judged by the compiler against the model's typeOf."),
        note=NOTE + "Trusted: g++ 12 front end as the judge; the enumeration of forms in the translator; value categories are abstracted (rows use lvalue operands). Forms outside the enumerated rules are not covered."),
    "C02": dict(
        engine="typing", design_ref="DESIGN.md §6 C02",
        technique="Lean 4: decide +kernel over a sink-shape verdict table REGENERATED from the C++ compiler on every run (shape list fixed in the theorem file) + theorems on the checked entry points' membership test + differential execution of the entry points for every address class",
        text=("Proof: C02_forbidden_rejected / C02_forbidden_rejected_wide_ptr (each of the 66 forbidden shapes -- raw pointer, function pointer, pointer array, other-sandbox wrapper into tainted / tainted_volatile / "
              "struct field / array element / invoke argument / callback signature / callback or function-address store -- is present in the regenerated table and rejected, for a target sandbox with 32-bit and with "
              "application-width guest pointers), C02_controls_accepted (permitted neighbours compile), C02_checked_entry, C02_checked_entry_aborts, C02_null_refused, C02_other_sandbox_refused, C02_checked_entry_vol "
              "(assign_raw_pointer / UNSAFE_accept_pointer accept exactly the addresses inside that sandbox and keep the address). Tied to the code by the regenerated table and by ~1000 entry-point ops "
              "(4 flavours x 2 live sandboxes x null/heap/stack/absolute/own/other region incl. both ends). Two genuine defects found here were repaired (db76c35, 7efba4e)."),
        note=NOTE + "Trusted: g++ 12 front end as the judge; shapes outside the enumerated list are not covered."),
    "C08": dict(
        engine="struct", design_ref="DESIGN.md §6 C08",
        technique="Lean 4 theorems: layout well-formedness by induction over arbitrary field lists; round trip / no-spurious-abort / abort-when-unrepresentable / pointwise by mutual structural induction over nested values (reusing C06 and C04) + differential execution of generated struct families on three foreign ABIs + independent oracle",
        text=("Proof: C08_field_placed, C08_fields_disjoint, C08_sizeof (for EVERY field list and every ABI with widths in {1,2,4,8}: fields aligned to their guest alignment, ascending, pairwise disjoint, inside "
              "sizeof; sizeof a multiple of the struct alignment which every field alignment divides), C08_roundtrip (copy-in then copy-out returns every field: integers by C06, pointers by C04, arrays element-wise, "
              "nested structs recursively, any nesting depth), C08_total + C08_done_fits (the copy aborts exactly when some integer leaf does not fit its guest type), C08_pointwise / C08_pointwise_out (image field i is the "
              "conversion of source field i and of nothing else; same field count), C08_store_frame (a whole-struct store writes exactly the leaves' footprints: padding and everything around keeps its value). Tied to the code by generated struct families (all leaf kinds, arrays incl. pointer and function-pointer arrays, nesting <= 2, shuffled orders) "
              "compiled against the real headers: leaf offsets through tainted pointers vs an independently declared fixed-width struct vs the model; raw copy-in image, copy-out, by-value argument seen by the guest, "
              "by-value result, copy-out of a guest-written image, loads through a const view; ABIs A/B/C."),
        note=NOTE + "Not covered: arrays of structs and const-qualified fields (rejected by rlbox's struct support at compile time), bit-fields, unions; float/double fields carry integral values (never converted)."),
    "C09": dict(
        engine="snap", design_ref="DESIGN.md §6 C09",
        technique="Lean 4 theorems over interaction trees of byte reads with an arbitrary adversary rewriting memory before every read (induction on the tree; run/bind lemmas) + refinement check: every machine read of sandbox memory is an interleave point (mprotect + x86 trap flag), outcomes must lie in the model's outcome set over all byte-level schedules",
        text=("Proof: C09_snapshot (for ANY program over sandbox reads and ANY adversary: the outcome depends only on what the adversary did before the reads actually performed -- nothing written after the last read, "
              "while the verifier runs or later, can change what it received), C09_snapshot_variants, C09_string (unique_ptr verifier: NUL as last byte of its own buffer, terminated inside, buffer = range-checked extent <= region), "
              "C09_string_std, C09_range (buffer has exactly count elements; never sized from a second look), C09_ptr (pointer fetched once; null reaches the verifier as nullptr and is never dereferenced; the pointee is read at the fetched address), "
              "for every adversary, memory and pointer source (application memory / sandbox cell). Tied to the code without a source hook: the region is PROT_NONE while rlbox runs, each machine read faults, the trap flag single-steps it, "
              "the adversary acts after read k for every k (thorough: every ordered pair of points for every pair of actions), 11 variants x 2 pointer sources x 7 actions; each observed outcome must be in the model's outcome set over all "
              "byte-level schedules and satisfy the oracle (application memory, unchanged after the region is overwritten, terminator inside a buffer of known size; when the pointer cell was retargeted before anything was range-checked, the bytes delivered are those of the extent that was checked). "
              "One genuine defect found and repaired (5202ca0)."),
        note=NOTE + "Partial: atomicity of one machine read is assumed; the correspondence scenario is fixed (the theorems are not); a null struct pointer dereferenced by copy_and_verify (no window involved) is C03/F7 territory and is not judged here."),
    "C18": dict(
        engine="thr", design_ref="DESIGN.md §6 C18",
        technique="Lean 4 noninterference theorem by simulation over ALL interleavings of owned atomic steps (induction over the schedule) + source facts (lock discipline, thread_local, atomic) regenerated from /repo as proof obligations + ThreadSanitizer execution of random multi-thread scenarios with per-thread concurrent/alone/model log comparison",
        text=("Proof: C18_noninterference (for every interleaving of any number of threads, each operating on its own instances with pairwise disjoint regions: every thread observes exactly what it observes running alone; "
              "arbitrary instance-private operations, overlapping create/destroy by others, example-based lookups in the shared live list in any order), C18_tls (a callback sees the sandbox its own thread entered), find_own, "
              "step_nodup, registry_accesses_guarded (every write to sandbox_list inside a UNIQUE guard, every read inside a SHARED/UNIQUE guard), thread_data_is_thread_local, status_is_atomic, sandbox_list_is_static -- the last four "
              "about facts regenerated from the source on every run. Tied to the code by seeded scenarios of 2..16 threads under ThreadSanitizer on the vsbx backend (example-based lookups) and the noop backend (real trampolines): "
              "per-thread concurrent log = alone log = model's sequential log, no TSan report."),
        note=NOTE + "Partial by nature: data-race freedom under the C++ memory model is sampled by ThreadSanitizer on the explored schedules, not proved; the theorem covers the logic of what is shared and that results do not depend on the schedule. The dylib backend is not executed."),
    "C06": dict(
        engine="conv", design_ref="DESIGN.md §6 C06",
        technique="Lean 4 theorem over all integer type pairs and values (case split + omega), stated about a model proved equal to the if-constexpr chain TRANSLATED from rlbox_conversion.hpp on every run (gen/extract_facts.py -> Generated.convChain) + differential execution vs model driver + 128-bit oracle",
        text=("Proof: C06_scalar_partial/C06_array/C06_abi_pairs state value-or-abort for every ordered pair of integer types and every value "
              "(no sampling) on convertFund, which C06_model_is_translated_source proves equal to the meaning of the chain parsed from the source on every run "
              "(C06_translated_chain_faithful states C06 about that chain directly); additionally tied to the code by block-exhaustive "
              "differential runs (all sources <=16 bit, thorough: all 2^32 values of every 32-bit source against a 128-bit oracle) and boundary/random "
              "runs through the raw helper and the six public paths on three ABIs, raw values of another integer type (`tvstore_x`) and copies between sandbox references of different integer types (`tvtv`)."),
        note=NOTE + "Out of scope: bool destination from non-bool source (never produced by the ABI mapping; C06_bool_witness)."),
    "C05": dict(
        engine="ptr", design_ref="DESIGN.md §6 C05",
        technique="Lean 4 theorems on a 64-bit wrap-around model of pointer arithmetic (omega, case analysis) + differential execution on a foreign-ABI backend + exact-integer oracle",
        text=("Proof: C05_inside/C05_inside_region (a result is always inside p's sandbox, unconditional), C05_null_aborts, C05_exact / C05_full_holds "
              "(FULL strength after the repair of F8: for every integer n and stride the result is the exact address p +/- n*s when it lies inside the sandbox, abort otherwise), "
              "C05_compound/C05_forms_inside for the ten source forms, stride = guest size. Source facts (which operator each macro "
              "calls) are regenerated from rlbox.hpp on every run and are proof obligations; the model is tied to the code by ~300k differential ops "
              "(10 pointee types x 10 forms x 15 operand types x 3 wrappers x boundary values) with an exact-integer oracle."),
        note=NOTE + "F1 (p-- incremented) and F8 (offsets wrapping the address space) were found by this check and repaired by fix: commits."),
    "C10": dict(
        engine="range", design_ref="DESIGN.md §6 C10",
        technique="Lean 4 theorems on the range-check arithmetic (division/mod lemmas + omega) + differential execution with whole-region byte diffs + interval oracle",
        text=("Proof: C10_sound (a checked non-empty range never wraps and lies in one aligned block, for every start and every size_t extent), "
              "C10_sound_region/_outside (wholly inside / wholly outside a region), C10_complete(_region) (every non-empty in-block request passes), "
              "C10_ops_memset/memcpy, C10_too_large, C10_null_start, C10_counted and C10_safe_pointer (element-counted variants, no side condition after the repairs), "
              "C10_grant_untrusted_allocator (copy_memory_or_grant_access writes only inside the region whatever the allocator inside the sandbox returns; op `grantf`); C10_deny_copy_before_free (the copy path of copy_memory_or_deny_access holds the source bytes as they were, whatever the sandbox's free then writes; op `denyfs`); ops `grantg`/`denyg` on a backend flavour that declares can_grant_deny_access and grants, refuses with the caller's pointer or refuses with null. "
              "Tied to the code by ~6k-10k boundary ops over all nine operations with byte diffs of both regions and the application arena. "
              "Four genuine defects were found by this check and repaired (fix: commits bd117b1, 2d57aba, 8abe039, 66ca6e3)."),
        note=NOTE + "For application-side ranges 'outside' is judged per 2^16-aligned block (what a mask-based backend can tell)."),
    "C17": dict(
        engine="index", design_ref="DESIGN.md §6 C17",
        technique="Lean 4 theorems over all index types and values (finite case split on widths + omega) + differential execution + direct oracle",
        text=("Proof: C17_checked (the check accepts exactly 0 <= v < n for every non-bool integer index type and every value, no aliasing after truncation), "
              "C17_designates (element v, wholly inside the array), C17_aborts, C17_multi (row-major designation for two-dimensional arrays), C17_multi_n (arrays of ANY rank, by induction on the rank: every index inside its own dimension, row-major element, wholly inside the array; the driver's `index2` op evaluates exactly this definition, `indexMulti`, incl. the 2x3x4 shape), C17_multi_n_complete (the converse: in-range index vectors of the right rank are never refused and yield exactly the row-major address), index2_eq_multi, C17_disjoint (distinct accepted indices designate disjoint elements), C17_volatile_index (an index stored in sandbox memory and rewritten by the sandbox at any moment: abort or an element of the array, for every adversary; driven through the C09 interposer). Tied to the code by ~33k ops: "
              "application- and sandbox-memory arrays, 3 element types, lengths 1..16, 14 index types, plain/tainted/tainted_volatile indices, boundary and aliasing values, 2-D/3-D shapes, canaries."),
        note=NOTE + "bool index types do not compile and are excluded."),
    "C15": dict(
        engine="tokens", design_ref="DESIGN.md §6 C15",
        technique="Lean 4 invariant + induction over all operation histories (structural recursion on the scan span) + lock-step exploration of the 8-bit table + owner histories",
        text=("Proof: C15_token (token non-zero, <= limit, free when issued, table updated at exactly that token, invariant kept), C15_exhausted (abort iff every token 1..max is in use), "
              "C15_lookup/C15_remove_unknown, C15_inv (invariant in every reachable state: induction over arbitrary histories, every limit, every token width with max+1 < 2^bits), "
              "C15_owner_move / C15_owner_release on an owner-level state machine (uniqueness of ownership as an invariant). Tied to the code by complete lock-step exploration of the "
              "model's reachable states for limits 1..5/6 on app_pointer_map<uint8_t>, random histories on 8/32/64-bit tables, and owner histories on vsbx and noop. "
              "One genuine defect found and repaired (fix: 2f7f77d, move-assignment onto a live owner leaked its token)."),
        note=NOTE + "The table's std::map is modelled as a total function Nat -> Option Nat."),
    "C03": dict(
        engine="mem", design_ref="DESIGN.md §6 C03",
        technique="Lean 4 invariant over all derivation chains (induction on the op list) under explicit backend laws + differential execution of random/enumerated chains + compile probes",
        text=("Proof: C03_from_guest / C03_from_cell (every guest representation yields null or an in-region address: all 2^32, symbolically), C03_step and C03_chain (the invariant is kept by "
              "+ - [] & * -> casts opaque loads malloc for chains of any length; member designation under the explicit side condition that the aggregate lies inside), "
              "C03_designation_witness (the full statement is false: known finding F7). Tied to the code by all 65536 representations x 5 positions x 2 live sandboxes (block hash), "
              "5000-30000 random derivation chains, expression probes judged by the compiler, thorough: all 2^32 representations in the cell position. "
              "C03_malloc (allocation with an untrusted allocator behind a backend that does not clamp: null, or first and last element inside). Further ops: increments/decrements in the chains, "
              "`malf` (forced allocator result), `nrep` (a backend whose representation type is `void*`: every 64-bit pattern in four positions). "
              "Two defects found here were repaired (66bbbbc null index, a71b992 number + pointer)."),
        note=NOTE + "Theorems are conditional on the backend laws (Sbx.wf: aligned region, mask translation) which vsbx satisfies by construction; F7 is a listed known finding."),
    "C04": dict(
        engine="mem", design_ref="DESIGN.md §6 C04",
        technique="Lean 4 round-trip/null/agreement theorems for the mask-based translation + registry lemma by induction + differential execution over every region offset",
        text=("Proof: C04_rt_addr, C04_rt_rep (round trips for every in-region address / canonical representation), C04_null, C04_nonnull, C04_noctx_agrees and C04_cell_relative "
              "(the context-free path given the cell's own address equals the path with context on the owning sandbox), C04_find_own / C04_find_none (registry lookup with any number of "
              "pairwise-disjoint live sandboxes in any order). Tied to the code by every offset of the region stored/round-tripped in a pointer cell, all store/load positions, "
              "two live ABI-A sandboxes plus an ABI-B sandbox with host-width guest pointers, function-pointer cells through the registry; C04_fn_null / C04_fn_nonnull / C04_fn_roundtrip "
              "(table-based function-pointer representation: 0 is null and only null, with and without the sandbox context; op `fctx`: call results and callback arguments). Address slots are not a "
              "multiple of 2^32 apart, and a pointer into another live sandbox stored in this sandbox's cell must be encoded relative to THIS sandbox (judged by the oracle)."),
        note=NOTE + "The first byte of a region has representation 0 (the sandbox's null) and is excluded explicitly."),
    "C07": dict(
        engine="mem", design_ref="DESIGN.md §6 C07",
        technique="Lean 4 frame/round-trip/locality theorems on a byte-level memory model (little-endian encode/decode lemmas by induction) + differential execution with region hashes",
        text=("Proof: C07_frame (a store changes no byte outside [a, a+guestSize)), C07_roundtrip (load after store returns the value, using the C06 theorems), C07_decode (a load depends only on those "
              "bytes), C07_footprint_is_layout, for every integer type, every well-formed ABI, every address and memory. Tied to the code by stores/loads of 14 types at all alignments and at the "
              "region end with window + whole-region hash comparison, five load paths, whole-array (multi-dimensional) stores, the 32 bytes around every kind of pointer store (`pfoot`: data, null constant, "
              "null tainted, array element, struct field, whole array/struct), copies between sandbox references of different integer types on three ABIs with a frame check (`tvtv`). "
              "Two defects found here were repaired (ec0ed44, cb0dd04)."),
        note=NOTE + "float/double/pointer/struct footprints are checked under C08/C04; bool loads of non-canonical bytes are not judged."),
    "C13": dict(
        engine="hist", design_ref="DESIGN.md §6 C13",
        technique="Lean 4 ownership invariant proved by induction over all operation histories (concrete keys/slot-table/owner model) + lock-step histories against a reference set model",
        text=("Proof: Inv (registered keys = functions in the backend entry-point table = functions held by owner objects through a registration made in the sandbox's CURRENT incarnation; unique "
              "slots, unique owners, no owner from the future, only created sandboxes have registrations) with release_total, release_inv, registerNew_inv, C13_move_transfers, C13_register, "
              "destroy_inv, step_inv and C13_inv: the invariant holds after EVERY history of create/destroy/register/unregister/move/lookup, any length, any table size, any number of objects -- "
              "including owners that outlive destroy_sandbox and re-creation (full strength since the repair of F6b; the only side condition is a naming convention of the model's temporary); "
              "C13_reachable_eq_owned, C13_owner_ops_never_abort, C13_stale_release_inert, C13_no_dup, C13_full_refused, C13_release_reenables. Tied to the code by exhaustive depth-2/3 + sampled "
              "deeper histories on a 2-slot backend with a state probe after every step and forked can-register probes, incarnation histories (owner outlives destroy+create, every short suffix), "
              "destroy/create cycles beyond the table size on noop/vsbx, random histories on 8- and 64-slot backends, table exhaustion. Three defects found and repaired (4c0791f, 6d44084, 9cbedcc)."),
        note=NOTE + "Aborts are exceptions in the harness; histories continue after guard aborts (state unchanged) and stop after a refusal by a full table."),
    "C14": dict(
        engine="hist", design_ref="DESIGN.md §6 C14",
        technique="Lean 4 state-machine theorems + registry invariant by induction over all histories + lock-step histories against a 4-state reference machine",
        text=("Proof: C14_create_only_from_not_created, C14_create_from_not_created, C14_destroy_only_from_created, C14_destroy_effect, C14_registry_exact (for every history the live-sandbox "
              "list contains exactly the CREATED objects, each once), C14_invariants (registry + region invariant: live sandboxes never share a region), C14_find (an address of region r finds sandbox i iff i is created and lives "
              "in r now -- never an earlier tenant of the region), C14_outside_window, C14_fresh_symbols, C14_fresh_full (nothing of the earlier incarnation -- callback key, entry point, cached symbol -- "
              "is visible after re-creation; full strength since the repair of F6b), C14_old_owner_inert, status_enum_matches (source enum regenerated each run). Tied to the code by "
              "all op sequences to depth 2/3 + samples on two objects, several tenants of one region on a backend that keeps stale fields after destroy, and random histories on three objects "
              "(vsbx, noop) with lookups for every region after each history. Three defects found and repaired (891f43c stale symbol cache, d07e384 shared lookup cache, 9cbedcc registrations survive re-creation)."),
        note=NOTE + "A failed create leaves the object INITIALIZING for ever (allowed by the statement)."),
    "C16": dict(
        engine="ops", design_ref="DESIGN.md §6 C16",
        technique="Lean 4 theorems parametric in the plain semantics (the wiring unwrap/apply/wrap/write-back is proved for EVERY PlainSem) + source operator tables as proof obligations + differential execution vs the plain C++ expression",
        text=("Proof: C16_value, C16_compare (value = plain comparison; hint iff sandbox memory is involved; never a plain bool), C16_logical / C16_cppLog (&& and ||: plain value, always tainted<bool>), C16_unary, C16_update_tainted, C16_update_tvol (stored value = plain result or "
              "abort, never a different value), C16_incdec_return, C16_float_incdec / C16_float_rederive_differs / C16_float_exact / C16_float_comm / C16_float_result_type / C16_float_nan_compare / C16_float_neg_zero (floating-point operands incl. NaN, infinities and signed zeros: engine `fops`, exact dyadic arithmetic with one rounding), for every plain semantics and every wrapper combination; ops_tables_match ties the operator macro instantiation lists and the bodies of "
              "Pre/PostIncDecOps/CompoundAssignmentOp to rlbox.hpp on every run. Tied to the code by 16 operators x 8 wrapper combinations x 121 type pairs, all 8-bit x 8-bit operand pairs by block hash "
              "(8.4M evaluations in quick), compound assignment and ++/--, with result types asserted at compile time and values compared with the plain expression and with an independent Python rendering."),
        note=NOTE + "The executable C++ integer rules (cppSem, LP64) are used only by the correspondence check; floating point is not exercised."),
    "C12": dict(
        engine="calls", design_ref="DESIGN.md §6 C12",
        technique="Lean 4 theorems on a mutually-recursive call-tree semantics (mutual structural induction) composed with the C13 ownership invariant + differential execution of random trees on three backend/TLS configurations",
        text=("Proof: C12_dispatch (the function registered for the entry point runs next, with the executing sandbox and the guest's argument), C12_result, C12_executing_sandbox (for trees of any "
              "depth across any sandboxes every callback and every guest function observes the innermost executing sandbox -- the nesting automaton checks cbRun/guest events), "
              "C12_tls_refines / C12_tls_executing_sandbox / C12_tls_dispatch (the REAL mechanism -- the per-thread record thread_data.sandbox / last_callback_invoked saved, set and restored by impl_invoke_with_func_ptr and read by trampoline and interceptor -- emits exactly the events of that semantics on every tree and leaves the record as found; the calls engine runs this machine, incl. helper sandboxes created and destroyed inside callback bodies), "
              "C12_dispatch_after_history / C12_owned_is_reachable (after ANY registration history an occupied entry point designates a function held by a live owner and vice versa, by the C13 invariant), "
              "backends_thread_data_is_thread_local (source fact). Tied to the code by random registration histories + call trees on vsbx (foreign ABI), noop, noop with embedder-provided TLS, "
              "and the dylib backend executed for real (guest functions in a dlopen'ed shared object), with library- and embedder-provided TLS."),
        note=NOTE + "All three backends of the property are executed; dlopen/dlsym run for real, symbol-visibility rules of real guest libraries are not exercised."),
    "C19": dict(
        engine="calls", design_ref="DESIGN.md §6 C19",
        technique="Lean 4 mutual structural induction over call trees with faults (stack-automaton acceptance + counting) + differential execution with logging transition hooks",
        text=("Proof: C19_bracketed (for every tree of nested invocations and callbacks, any depth and width, with a fault at any position, the notification sequence is accepted by the bracket "
              "automaton: in..out for invocations, out..in for callbacks, payload identities matching), C19_one_record_per_crossing (exit-side events = entry-side events, also on exceptional exit), "
              "C19_scope_exit_once, C19_single_hook / C19_single_hook_counts (a client that defines only one of the two hooks gets exactly that hook's notifications; builds noop_in / noop_out). Tied to the code by random trees with injected aborts and a fixed tree with a fault at every position, hooks logging (kind, name/key, per-sandbox state, compared "
              "with the sandbox's current state at delivery) and timing records, on vsbx and noop."),
        note=NOTE + "Timing values are not compared."),
    "C11": dict(
        engine="invoke", design_ref="DESIGN.md §6 C11",
        technique="Lean 4 theorems on the marshalling model (list induction, reuse of the C06/C04 theorems) + cache invariants by case analysis + differential execution of a signature family",
        text=("Proof: C11_args (if the call goes through the guest observed every argument faithfully, position by position: integers by C06, pointers by C04), C11_abort_before_call (an unrepresentable "
              "argument aborts with zero guest executions), C11_once, C11_result, C11_cache_isolated (a lookup on one instance never touches another's cache), C11_resolve_own_library / C11_resolve_ignores_others (a name resolves only in the instance's own library, else aborts, whatever other libraries or the process export; scenario `dymiss`), C11_instance under CacheInv with "
              "lookup/create/destroy preservation lemmas (the function that runs is the named one in the instance's own library), C11_fn_address (independent of the invocation history). "
              "Tied to the code by 11 signatures (0..12 parameters, all kinds incl. callback and by-value struct) x 4 wrapper forms x 3 live instances with recording guest functions, and by-name "
              "lookups/addresses on instances bound to two libraries exporting the same names. The shared-cache defect (F12) and the stale cache (F6a) were found by C14/C11 ops and repaired."),
        note=NOTE + "Calling convention and machine code of the call are trusted; dlsym is not executed."),
    "C20": dict(
        engine="casts", design_ref="DESIGN.md §6 C20",
        technique="Lean 4 theorems (identity of the opaque image, cast = plain cast after the C06 load, address preservation by the C04 cell-relative translation) + differential execution",
        text=("Proof: C20_opaque_rt, C20_cast_value, C20_cast_value_tvol (a sandbox-memory source is first loaded per C06: same value or abort), C20_cast_identity_in_range, C20_castf_value / C20_castf_exact / C20_castf_nearest / C20_castf_single_rounding / C20_float_to_int / C20_static_cast_class_ptr (class pointers: adjustment by exactly the base offset, null preserved) (casts that involve float, double, long double: one round-to-nearest-even of the exact value, truncation toward zero), C20_cast_addr (pointer casts keep "
              "the designated address; a source stored in sandbox memory is translated relative to its own cell). Enum-typed sources (`scaste`: enums over unsigned long long / unsigned int / signed char, tainted and tainted_volatile) are converted by the model as their underlying type, so the same theorems decide them. Tied to the code by opaque round trips with memcmp of the images (integers, pointers, "
              "array, struct), sandbox_static_cast over 14x14 type pairs from tainted and tainted_volatile sources, pointer casts from both kinds of source, a callback returning tainted_opaque, and the "
              "same value passed as tainted and as tainted_opaque to a sandbox function."),
        note=NOTE + "Taint of the results is a static property (decltype asserted at compile time; C01)."),
}

TODO_REASON = "check not built yet in this round (design in DESIGN.md §6); will be claimed when its theorems and correspondence check exist"


def main():
    props = [json.loads(l)["id"] for l in open(os.path.join(HERE, "properties.jsonl"))]
    checks, na = [], []
    for p in props:
        if p in CHECKS:
            c = CHECKS[p]
            checks.append({
                "property_id": p,
                "quick_cmd": f"python3 bin/check {p} --tier quick",
                "thorough_cmd": f"python3 bin/check {p} --tier thorough",
                "evidence_file": f"/verif/evidence/{p}.json",
                "replay_cmd_template": f"python3 bin/check {p} --replay {{path}}",
                "engine": c["engine"],
                "level_claimed": {"category": "proof", "text": c["text"], "design_ref": c["design_ref"]},
                "level_note": c["note"],
                "technique": c["technique"],
            })
        else:
            na.append({"property_id": p, "reason": TODO_REASON})
    engines = {}
    for p, c in CHECKS.items():
        engines.setdefault(c["engine"], []).append(p)
    m = {
        "version": 1,
        "setup_cmd": "sh bin/setup",
        "hooks": {
            "guard": "ALLENABY_RLBOX_VERIF",
            "enable": "every harness is compiled with -DALLENABY_RLBOX_VERIF against /repo/code/include of the working tree (no source hook exists yet: all observables are public API)",
            "baseline_off_cmd": "cmake --build /repo/_build && ctest --test-dir /repo/_build -j8 --timeout 900",
            "source_commits": [],
            "add_only": True,
        },
        "engines": [{"name": e, "path": ("gen/typing_table.py + lean/Driver/TypingEng.lean" if e == "typing" else "gen/structs.py + harness/structs_common.hpp + lean/Driver/StructEng.lean" if e == "struct" else "harness/h_snap.cpp (mprotect/trap-flag interposer) + lean/Driver/SnapEng.lean" if e == "snap" else "harness/h_thr.cpp (clang++-14 -fsanitize=thread) + lean/Driver/ThrEng.lean" if e == "thr" else f"harness/h_{e}.cpp + lean/Driver"), "serves_properties": sorted(ps),
                     "kind_free_text": "line-protocol differential engine (C++ harness on real headers vs Lean model driver)"} for e, ps in sorted(engines.items())],
        "checks": checks,
        "not_applicable": na,
        "notes": "Technique: machine-checked proof in Lean 4 (models + theorems in lean/, tied to the code by correspondence checks). See DESIGN.md.",
    }
    with open(os.path.join(HERE, "MANIFEST.json"), "w") as f:
        json.dump(m, f, indent=1)
    print("checks:", [c["property_id"] for c in checks], "not_applicable:", len(na))


if __name__ == "__main__":
    main()
