"""Struct-family generator (C08): seeded families of structs covering all field kinds in varying
orders, their rlbox reflection macros, independently declared fixed-width guest structs, leaf
visitors; type descriptors for the Lean model; an independent Python oracle for layout and values."""
import random

INTS = {  # name: (C++ type, signed, app bytes, guest width selector)
    "bool": ("bool", False, 1, 1), "char": ("char", True, 1, 1), "schar": ("signed char", True, 1, 1), "uchar": ("unsigned char", False, 1, 1),
    "short": ("short", True, 2, "short"), "ushort": ("unsigned short", False, 2, "short"), "int": ("int", True, 4, "int"), "uint": ("unsigned int", False, 4, "int"),
    "long": ("long", True, 8, "long"), "ulong": ("unsigned long", False, 8, "long"), "llong": ("long long", True, 8, "llong"), "ullong": ("unsigned long long", False, 8, "llong"),
}
ABIS = {"A": dict(short=2, int=4, long=4, llong=8, ptr=4), "B": dict(short=2, int=4, long=8, llong=8, ptr=8), "C": dict(short=4, int=8, long=8, llong=8, ptr=4)}
GUEST_C = {"short": "typename A::S", "int": "typename A::I", "long": "typename A::L", "llong": "typename A::LL"}
OTHER = {"float": "float", "double": "double", "enum": "En", "ptr": "int*", "vptr": "void*", "cptr": "const char*", "fn": "Fn"}
LEAF_KINDS = list(INTS) + list(OTHER)


def guest_bytes(abi, k):
    w = INTS[k][3]
    return w if isinstance(w, int) else ABIS[abi][w]


def int_range(signed, nbytes, is_bool=False):
    if is_bool:
        return 0, 1
    return (-(1 << (8 * nbytes - 1)), (1 << (8 * nbytes - 1)) - 1) if signed else (0, (1 << (8 * nbytes)) - 1)


# ---- types: ('leaf', kind) | ('arr', n, ('leaf', kind)) | ('struct', name, [(fname, type)]) -----

def gen_family(seed, nstructs, fid):
    rng = random.Random(seed * 7907 + 13)
    structs = []      # (name, fields) in declaration order (inner before outer)
    tops = []
    kinds_pool = []
    for si in range(nstructs):
        if not kinds_pool:
            kinds_pool = LEAF_KINDS[:] + ["arr:char", "arr:long", "arr:ptr", "arr:fn", "arr:ushort", "arr:uchar", "arr:llong", "nested", "nested",
                                          "arr2:char", "arr2:int", "arr2:long", "arr2:float"]
            rng.shuffle(kinds_pool)

        def mkfields(nf, depth, tag):
            fs = []
            for j in range(nf):
                k = kinds_pool.pop() if kinds_pool and depth == 0 else rng.choice(LEAF_KINDS + ["arr:char", "arr:int", "arr:ptr", "arr2:short"])
                nm = f"m{j}"
                if k == "nested":
                    if depth >= 2:
                        k = "long"
                    else:
                        iname = f"F{fid}_I{len(structs)}"
                        inner = mkfields(rng.randint(1, 4), depth + 1, iname)
                        structs.append((iname, inner))
                        fs.append((nm, ("struct", iname, inner)))
                        continue
                if k.startswith("arr2:"):
                    fs.append((nm, ("arr", rng.choice([2, 3]), ("arr", rng.choice([2, 3]), ("leaf", k[5:])))))
                elif k.startswith("arr:"):
                    fs.append((nm, ("arr", rng.choice([1, 2, 3, 5]), ("leaf", k[4:]))))
                else:
                    fs.append((nm, ("leaf", k)))
            return fs
        name = f"F{fid}_S{si}"
        fields = mkfields(rng.randint(2, 10), 0, name)
        structs.append((name, fields))
        tops.append((name, fields))
    return structs, tops


def arr_dims(t):
    """(dims, leaf kind) of a (possibly multi-dimensional) array type"""
    dims = []
    while t[0] == "arr":
        dims.append(t[1]); t = t[2]
    return dims, t[1]


def cdecl(t, nm):
    if t[0] == "leaf":
        c = INTS[t[1]][0] if t[1] in INTS else OTHER[t[1]]
        return f"{c} {nm};"
    if t[0] == "arr":
        dims, k = arr_dims(t)
        c = INTS[k][0] if k in INTS else OTHER[k]
        return f"{c} {nm}" + "".join(f"[{d}]" for d in dims) + ";"
    return f"{t[1]} {nm};"


def refl_type(t):
    if t[0] == "leaf":
        return INTS[t[1]][0] if t[1] in INTS else OTHER[t[1]]
    if t[0] == "arr":
        dims, k = arr_dims(t)
        c = INTS[k][0] if k in INTS else OTHER[k]
        return f"{c}" + "".join(f"[{d}]" for d in dims)
    return t[1]


def gleaf(k):
    if k in INTS:
        c, signed, _, w = INTS[k]
        if isinstance(w, int):
            return {"bool": "bool", "char": "char", "schar": "int8_t", "uchar": "uint8_t"}[k]
        base = GUEST_C[w]
        return base if signed else f"std::make_unsigned_t<{base}>"
    return {"float": "float", "double": "double", "enum": "int32_t"}.get(k, "typename A::P")


def gdecl(t, nm):
    if t[0] == "leaf":
        return f"{gleaf(t[1])} {nm};"
    if t[0] == "arr":
        dims, k = arr_dims(t)
        return f"{gleaf(k)} {nm}" + "".join(f"[{d}]" for d in dims) + ";"
    return f"G_{t[1]}<A> {nm};"


def visit_body(fields, obj):
    out = []
    for nm, t in fields:
        if t[0] == "leaf":
            m = "i" if t[1] in INTS or t[1] in ("float", "double", "enum") else "f" if t[1] == "fn" else "p"
            out.append(f"v.{m}({obj}.{nm});")
        elif t[0] == "arr":
            import itertools
            dims, k = arr_dims(t)
            m = "i" if k in INTS or k in ("float", "double", "enum") else "f" if k == "fn" else "p"
            for idx in itertools.product(*[range(d) for d in dims]):
                out.append(f"v.{m}({obj}.{nm}" + "".join(f"[{i}]" for i in idx) + ");")
        else:
            out.append(f"visit_{t[1]}(v, {obj}.{nm});")
    return " ".join(out)


def cpp(structs, tops, fid):
    L = ['// GENERATED by gen/structs.py', '#include "structs_common.hpp"']
    for name, fields in structs:
        L.append(f"struct {name} {{ " + " ".join(cdecl(t, nm) for nm, t in fields) + " };")
    for name, fields in structs:
        L.append(f"#define sandbox_fields_reflection_fam{fid}_class_{name}(f, g, ...) \\")
        L.append(" \\\n".join(f"  f({refl_type(t)}, {nm}, FIELD_NORMAL, ##__VA_ARGS__) g()" for nm, t in fields))
    L.append(f"#define sandbox_fields_reflection_fam{fid}_allClasses(f, ...) " + " ".join(f"f({name}, fam{fid}, ##__VA_ARGS__)" for name, _ in structs))
    L.append(f"rlbox_load_structs_from_library(fam{fid});")
    for name, fields in structs:
        L.append(f"template<class A> struct G_{name} {{ " + " ".join(gdecl(t, nm) for nm, t in fields) + " };")
        L.append(f"template<class V, class X> void visit_{name}(V& v, X& x) {{ {visit_body(fields, 'x')} }}")
    for name, _ in tops:
        L.append(f"struct Tr_{name} {{ using T = {name}; template<class A> using G = G_{name}<A>; template<class V, class X> static void visit(V& v, X& x) {{ visit_{name}(v, x); }} }};")
    L.append("int main() {")
    L.append("  vh::main_loop([&](const std::vector<std::string>& t) -> std::string {")
    L.append("    if (t.size() < 3) return \"badop\";")
    L.append("    size_t bar = 0; while (bar < t.size() && t[bar] != \"|\") bar++;")
    L.append("    vh::Toks tk{ t, bar + 1 };")
    for name, _ in tops:
        L.append(f"    if (t[1] == \"{name}\") return vh::dispatch_abi<Tr_{name}>(t[0], t[2], tk);")
    L.append("    return \"badop\";")
    L.append("  });")
    L.append("  return 0;")
    L.append("}")
    return "\n".join(L) + "\n"


# ---- descriptors, leaves, oracle ----------------------------------------------------------------

def desc(fields):
    def d(t):
        if t[0] == "leaf":
            k = t[1]
            return {"vptr": "ptr", "cptr": "ptr"}.get(k, k)
        if t[0] == "arr":
            return f"arr {t[1]} {d(t[2])}"
        return f"struct {len(t[2])} " + " ".join(d(x) for _, x in t[2])
    return f"struct {len(fields)} " + " ".join(d(t) for _, t in fields)


def leaves(fields):
    out = []
    for _, t in fields:
        if t[0] == "leaf":
            out.append(t[1])
        elif t[0] == "arr":
            dims, k = arr_dims(t)
            n = 1
            for d in dims:
                n *= d
            out += [k] * n
        else:
            out += leaves(t[2])
    return out


def size_align(abi, t):
    if t[0] == "leaf":
        k = t[1]
        if k in INTS:
            w = guest_bytes(abi, k)
        elif k in ("float", "enum"):
            w = 4
        elif k == "double":
            w = 8
        else:
            w = ABIS[abi]["ptr"]
        return w, w
    if t[0] == "arr":
        s, a = size_align(abi, t[2])
        return s * t[1], a
    off, al, _ = layout(abi, t[2])
    return off, al


def layout(abi, fields):
    """(sizeof, alignof, leaf offsets) by the natural-alignment rule on the guest widths"""
    off, al, offs = 0, 1, []
    for _, t in fields:
        s, a = size_align(abi, t)
        off = (off + a - 1) // a * a
        if t[0] == "leaf":
            offs.append(off)
        elif t[0] == "arr":
            dims, k = arr_dims(t)
            es, _ = size_align(abi, ("leaf", k))
            n = 1
            for d in dims:
                n *= d
            offs += [off + i * es for i in range(n)]
        else:
            _, _, inner = layout(abi, t[2])
            offs += [off + o for o in inner]
        off += s
        al = max(al, a)
    return (off + al - 1) // al * al, al, offs


def app_range(k):
    c, signed, nb, _ = INTS[k]
    return int_range(signed, nb, k == "bool")


def guest_range(abi, k):
    return int_range(INTS[k][1], guest_bytes(abi, k), k == "bool")
