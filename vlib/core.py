"""Shared machinery of /verif/bin/check: Lean build + audit, harness build cache, line-protocol runs,
verdicts, replays, known findings, evidence."""
import fcntl, hashlib, json, os, random, re, shutil, subprocess, sys, time

VERIF = os.path.dirname(os.path.dirname(os.path.abspath(__file__)))
REPO = os.environ.get("VERIF_REPO", "/repo")
INC = os.path.join(REPO, "code", "include")
WORK = os.path.join(VERIF, ".work")
LEAN = os.path.join(VERIF, "lean")
HARNESS = os.path.join(VERIF, "harness")
DRIVER = os.path.join(LEAN, ".lake", "build", "bin", "rlbox_model_driver")
ALLOWED_AXIOMS = {"propext", "Classical.choice", "Quot.sound"}
FORBIDDEN = re.compile(r"\bsorry\b|\badmit\b|^\s*axiom\s|native_decide|bv_decide|implemented_by|\bunsafe\s|maxHeartbeats\s+0|ofReduceBool")
NCPU = os.cpu_count() or 4

BASE_TRUSTED = [
    "Lean 4.33 kernel; axioms limited to propext, Classical.choice, Quot.sound (audited by #print axioms on every run)",
    "hand-written Lean model validated (not verified) against the code by the correspondence check of this run",
    "harness/vsbx.hpp (verification backend) and the harness driver; g++ 12, libstdc++, sanitizers",
    "C++ language semantics, template instantiation and the machine code are reached only through differential execution",
]


def sh(cmd, **kw):
    kw.setdefault("stdout", subprocess.PIPE)
    kw.setdefault("stderr", subprocess.STDOUT)
    kw.setdefault("text", True)
    return subprocess.run(cmd, **kw)


def sha_files(paths):
    h = hashlib.sha256()
    for p in sorted(paths):
        h.update(p.encode())
        with open(p, "rb") as f:
            h.update(f.read())
    return h.hexdigest()


def repo_include_files():
    out = []
    for root, _, files in os.walk(INC):
        for f in files:
            out.append(os.path.join(root, f))
    return out


def repo_hash():
    return sha_files(repo_include_files())


class Lock:
    def __init__(self, name):
        os.makedirs(WORK, exist_ok=True)
        self.path = os.path.join(WORK, name + ".lock")

    def __enter__(self):
        self.f = open(self.path, "w")
        fcntl.flock(self.f, fcntl.LOCK_EX)
        return self

    def __exit__(self, *a):
        fcntl.flock(self.f, fcntl.LOCK_UN)
        self.f.close()


# ----------------------------------------------------------------------------------------------
# Lean: facts regeneration, build, audit

def regenerate_facts():
    """Run the facts extractor; rewrite Generated.lean only when its content changes."""
    sys.path.insert(0, os.path.join(VERIF, "gen"))
    import extract_facts
    text = extract_facts.generate(REPO)
    path = os.path.join(LEAN, "RlboxModel", "Generated.lean")
    old = open(path).read() if os.path.exists(path) else None
    if old != text:
        with open(path, "w") as f:
            f.write(text)
    return text


def lean_build(targets):
    """lake build of the given targets under a lock. Returns (ok, log)."""
    with Lock("lean"):
        regenerate_facts()
        r = sh(["lake", "build"] + targets, cwd=LEAN)
        return r.returncode == 0, r.stdout


def strip_lean_comments(text):
    # remove /- ... -/ (nested) and -- ... comments
    out = []
    i, depth, n = 0, 0, len(text)
    while i < n:
        if text.startswith("/-", i):
            depth += 1; i += 2; continue
        if depth > 0 and text.startswith("-/", i):
            depth -= 1; i += 2; continue
        if depth > 0:
            if text[i] == "\n":
                out.append("\n")
            i += 1; continue
        if text.startswith("--", i):
            while i < n and text[i] != "\n":
                i += 1
            continue
        out.append(text[i]); i += 1
    return "".join(out)


def lean_source_files():
    out = []
    for sub in ("RlboxModel", "Driver"):
        for root, _, files in os.walk(os.path.join(LEAN, sub)):
            for f in files:
                if f.endswith(".lean"):
                    out.append(os.path.join(root, f))
    out.append(os.path.join(LEAN, "RlboxModel.lean"))
    return sorted(out)


def grep_forbidden():
    hits = []
    for p in lean_source_files():
        code = strip_lean_comments(open(p).read())
        for ln, line in enumerate(code.split("\n"), 1):
            if FORBIDDEN.search(line):
                hits.append(f"{os.path.relpath(p, LEAN)}:{ln}: {line.strip()}")
    return hits


def theorems_of(prop_id):
    """Names (fully qualified) of the theorems declared in Props/<id>.lean."""
    path = os.path.join(LEAN, "RlboxModel", "Props", prop_id + ".lean")
    code = strip_lean_comments(open(path).read())
    core_path = os.path.join(LEAN, "RlboxModel", "Props", prop_id + "Core.lean")
    if os.path.exists(core_path) and re.search(r"^import RlboxModel\.Props\." + prop_id + r"Core\s*$", code, flags=re.M):
        # a property's theorems may be split: <ID>Core.lean (independent of the regenerated facts) + <ID>.lean
        code = strip_lean_comments(open(core_path).read()) + "\n" + code
    ns = []
    names = []
    examples = 0
    for line in code.split("\n"):
        m = re.match(r"\s*namespace\s+(\S+)", line)
        if m:
            ns.append(m.group(1)); continue
        m = re.match(r"\s*end\s+(\S+)", line)
        if m and ns and ns[-1] == m.group(1):
            ns.pop(); continue
        m = re.match(r"\s*(?:private\s+|protected\s+)?theorem\s+(\S+)", line)
        if m:
            names.append(".".join(ns + [m.group(1)]))
        if re.match(r"\s*example\b", line):
            examples += 1
    return names, examples


def audit(prop_id):
    """#print axioms on every theorem of the property. Returns dict with obligations etc."""
    names, examples = theorems_of(prop_id)
    os.makedirs(os.path.join(WORK, "audit"), exist_ok=True)
    f = os.path.join(WORK, "audit", f"Audit_{prop_id}_{os.getpid()}.lean")
    with open(f, "w") as fh:
        fh.write(f"import RlboxModel.Props.{prop_id}\n")
        for n in names:
            fh.write(f"#print axioms {n}\n")
    r = sh(["lake", "env", "lean", f], cwd=LEAN)
    os.remove(f)
    res = {}
    # output: "'Name' depends on axioms: [a, b]" or "'Name' does not depend on any axioms"
    txt = r.stdout.replace("\n  ", " ").replace("\n ", " ")
    for m in re.finditer(r"'([^']+)' depends on axioms: \[([^\]]*)\]", txt):
        res[m.group(1)] = [a.strip() for a in m.group(2).split(",") if a.strip()]
    for m in re.finditer(r"'([^']+)' does not depend on any axioms", txt):
        res[m.group(1)] = []
    bad = []
    for n in names:
        if n not in res:
            bad.append((n, "not found / did not elaborate"))
        else:
            extra = [a for a in res[n] if a not in ALLOWED_AXIOMS]
            if extra:
                bad.append((n, "axioms " + ",".join(extra)))
    return {"theorems": names, "examples": examples, "axioms": res, "bad": bad, "raw": r.stdout if r.returncode else ""}


def leanchecker(prop_id):
    r = sh(["lake", "env", "leanchecker", f"RlboxModel.Props.{prop_id}"], cwd=LEAN)
    return r.returncode == 0, r.stdout[-2000:]


# ----------------------------------------------------------------------------------------------
# harness build cache

# null/alignment are off: rlbox forms references to (possibly null or unaligned) sandbox objects by design
SAN = ["-O0", "-g", "-fsanitize=address,undefined", "-fno-sanitize=null,alignment", "-fno-sanitize-recover=all"]
FAST = ["-O1"]


def build_harness(name, srcs, flags, compiler="g++", extra_hash=""):
    """Compile harness sources against /repo's current headers. Cached by content hash."""
    os.makedirs(os.path.join(WORK, "bin"), exist_ok=True)
    hfiles = [os.path.join(HARNESS, f) for f in os.listdir(HARNESS) if f.endswith((".hpp", ".h", ".inc"))]
    # an entry is a file name or (file name, [extra flags]) -- the same source may be compiled into several parts
    ents = [(s, []) if isinstance(s, str) else (s[0], list(s[1])) for s in srcs]
    ents = [(s if os.path.isabs(s) else os.path.join(HARNESS, s), d) for s, d in ents]
    srcpaths = sorted({s for s, _ in ents})
    key = hashlib.sha256((repo_hash() + sha_files(hfiles + srcpaths) + " ".join(flags) + repr(ents) + compiler + extra_hash).encode()).hexdigest()[:20]
    out = os.path.join(WORK, "bin", f"{name}-{key}")
    with Lock("hb-" + name):
        if os.path.exists(out):
            return out, ""
        for f in os.listdir(os.path.join(WORK, "bin")):
            if f.startswith(name + "-"):
                try:
                    os.remove(os.path.join(WORK, "bin", f))
                except OSError:
                    pass
        cmd = [compiler, "-std=c++17", "-DALLENABY_RLBOX_VERIF", "-I" + INC, "-I" + HARNESS] + flags
        objs = []
        procs = []
        tmpd = os.path.join(WORK, "bin", f".obj-{name}-{os.getpid()}")
        os.makedirs(tmpd, exist_ok=True)
        for i, (s, d) in enumerate(ents):
            o = os.path.join(tmpd, f"{i}-" + os.path.basename(s) + ".o")
            objs.append(o)
            procs.append(subprocess.Popen(cmd + d + ["-c", s, "-o", o], stdout=subprocess.PIPE, stderr=subprocess.STDOUT, text=True))
        log = ""
        ok = True
        for p in procs:
            o, _ = p.communicate()
            log += o
            ok = ok and p.returncode == 0
        if ok:
            r = sh([compiler] + [f for f in flags if f.startswith("-fsanitize") or f in ("-pthread", "-g", "-rdynamic")] + objs + ["-o", out + ".tmp", "-ldl", "-pthread"])
            log += r.stdout
            ok = r.returncode == 0
        shutil.rmtree(tmpd, ignore_errors=True)
        if not ok:
            return None, log
        os.rename(out + ".tmp", out)
        return out, log


def run_lines(binary, text, env_extra=None, timeout=3600, args=None):
    env = dict(os.environ)
    env["ASAN_OPTIONS"] = "handle_segv=0:handle_sigbus=0:detect_leaks=0:allocator_may_return_null=1:detect_stack_use_after_return=0"
    env["UBSAN_OPTIONS"] = "print_stacktrace=0"
    if env_extra:
        env.update(env_extra)
    p = subprocess.run([binary] + (args or []), input=text, stdout=subprocess.PIPE, stderr=subprocess.PIPE, text=True, env=env, timeout=timeout)
    return p.returncode, p.stdout.split("\n")[:-1] if p.stdout.endswith("\n") else p.stdout.split("\n"), p.stderr


def run_model(text, timeout=3600):
    p = subprocess.run([DRIVER], input=text, stdout=subprocess.PIPE, stderr=subprocess.PIPE, text=True, timeout=timeout)
    out = p.stdout.split("\n")
    if out and out[-1] == "":
        out.pop()
    return p.returncode, out, p.stderr


def run_parallel(fn, chunks):
    """Run fn(chunk) for each chunk in a thread pool (the work is in subprocesses)."""
    from concurrent.futures import ThreadPoolExecutor
    with ThreadPoolExecutor(max_workers=NCPU) as ex:
        return list(ex.map(fn, chunks))


# ----------------------------------------------------------------------------------------------
# known findings

def load_known():
    p = os.path.join(VERIF, "known_findings.json")
    if not os.path.exists(p):
        return {"findings": [], "fixed": []}
    return json.load(open(p))


# ----------------------------------------------------------------------------------------------
# the per-run context

class Check:
    def __init__(self, prop_id, tier, seed):
        self.id = prop_id
        self.tier = tier
        self.seed = seed
        self.t0 = time.time()
        self.rng = random.Random(seed * 1000003 + int(prop_id[1:]))
        self.violations = []          # list of dict(kind, what, replay, found)
        self.known_hits = {}          # signature -> count
        self.notes = []
        self.cov = {"evaluations": 0, "distinct_nontrivial": 0, "rule": "", "samples": [], "obligations": 0,
                    "discharged": 0, "checker_cmd": "", "trusted_base": list(BASE_TRUSTED)}
        self.assumptions = []
        self.known = [k for k in load_known()["findings"] if k["property"] == prop_id]
        self.lean_ok = None
        os.makedirs(os.path.join(WORK, "replays"), exist_ok=True)
        os.makedirs(os.path.join(VERIF, "evidence"), exist_ok=True)

    # -- Lean side ------------------------------------------------------------------------------
    def lean(self, thorough_checker=False):
        """Build the property's theorems + the driver, audit them. Broken obligations are recorded
        (they become a VIOLATION ... no-failing-input-found at the end unless a failing input is found)."""
        ok_drv, log_drv = lean_build(["rlbox_model_driver"])
        if not ok_drv:
            print(log_drv[-3000:])
            raise SystemExit("infrastructure error: the model driver does not build")
        ok, log = lean_build([f"RlboxModel.Props.{self.id}"])
        self.lean_ok = ok
        self.broken_obligations = []
        if not ok:
            errs = re.findall(r"error: (\S+\.lean:\d+:\d+: .*)", log)
            self.broken_obligations.append({"what": "lake build RlboxModel.Props.%s failed" % self.id, "errors": errs[:10], "log_tail": log[-1500:]})
            self.cov["obligations"] = max(1, len(theorems_of(self.id)[0]))
            self.cov["discharged"] = 0
        else:
            hits = grep_forbidden()
            a = audit(self.id)
            self.cov["obligations"] = len(a["theorems"])
            self.cov["discharged"] = len(a["theorems"]) - len(a["bad"])
            self.cov["theorems"] = a["theorems"]
            self.cov["nonvacuity_examples"] = a["examples"]
            self.cov["axioms_used"] = sorted({x for v in a["axioms"].values() for x in v})
            for n, why in a["bad"]:
                self.broken_obligations.append({"what": f"theorem {n}: {why}"})
            for h in hits:
                self.broken_obligations.append({"what": "forbidden token in Lean sources: " + h})
            if thorough_checker and not a["bad"]:
                okc, outc = leanchecker(self.id)
                self.cov["leanchecker"] = "ok" if okc else "FAILED"
                if not okc:
                    self.broken_obligations.append({"what": "leanchecker rejected RlboxModel.Props." + self.id, "log_tail": outc})
        self.cov["checker_cmd"] = f"cd lean && lake build RlboxModel.Props.{self.id} && lake env lean <#print axioms of every theorem>" + (
            f" && lake env leanchecker RlboxModel.Props.{self.id}" if thorough_checker else "")
        return ok

    # -- verdict helpers -----------------------------------------------------------------------
    def match_known(self, signature):
        for k in self.known:
            if k["signature"] == signature:
                return k
        return None

    def fail(self, what, replay, signature=None, found=True):
        """Record a property failure at a concrete input (found=True) or a broken obligation/correspondence."""
        if signature is not None:
            k = self.match_known(signature)
            if k is not None:
                self.known_hits[signature] = self.known_hits.get(signature, 0) + 1
                return False
        if len(self.violations) < 50:
            self.violations.append({"what": what, "replay": replay, "found": found, "signature": signature})
        return True

    def add_samples(self, items, limit=6):
        for it in items:
            if len(self.cov["samples"]) < limit:
                self.cov["samples"].append(it)

    def finish(self):
        # broken obligations without a concrete failing input
        if getattr(self, "broken_obligations", None):
            concrete = [v for v in self.violations if v["found"]]
            if not concrete:
                self.violations.append({"what": "proof obligation no longer checks", "replay": {"broken": self.broken_obligations}, "found": False, "signature": None})
            else:
                for v in concrete:
                    v["replay"]["broken_obligations"] = self.broken_obligations
        wall = time.time() - self.t0
        ev = {
            "property_id": self.id, "tier": self.tier, "seed": self.seed, "level": "proof",
            "coverage": self.cov, "assumptions": self.assumptions, "wall_s": round(wall, 2),
            "violations": len(self.violations),
        }
        self.cov["known_findings_reproduced"] = self.known_hits
        self.cov["notes"] = self.notes
        self.cov["repo_include_sha256"] = repo_hash()
        # a replay of one recorded input, or a run against another tree (VERIF_REPO), is not a check of /repo: its record goes to .work/, never over the evidence file
        ev_path = (os.path.join(VERIF, "evidence", self.id + ".json") if not getattr(self, "is_replay", False) and REPO == "/repo"
                   else os.path.join(WORK, f"replay-evidence-{self.id}.json"))
        with open(ev_path, "w") as f:
            json.dump(ev, f, indent=1, default=str)
        for k in self.known:
            n = self.known_hits.get(k["signature"], 0)
            if n:
                print(f"KNOWN-FINDING: property={self.id} {k['what']} (reproduced on {n} inputs; signature {k['signature']})")
            else:
                print(f"note: known finding {k['signature']} did not reproduce in this run")
        code = 0
        for i, v in enumerate(self.violations):
            path = os.path.join(WORK, "replays", f"{self.id}-{self.tier}-{self.seed}-{i}.json")
            rp = dict(v["replay"]) if isinstance(v["replay"], dict) else {"replay": v["replay"]}
            rp.update({"property": self.id, "what": v["what"], "seed": self.seed, "tier": self.tier,
                       "replay_cmd": f"python3 bin/check {self.id} --replay {path}"})
            with open(path, "w") as f:
                json.dump(rp, f, indent=1, default=str)
            tail = "" if v["found"] else " no-failing-input-found"
            print(f"VIOLATION property={self.id} replay={path}{tail}")
            print(f"  -> {v['what']}")
            code = 1
        print(f"[{self.id}] tier={self.tier} seed={self.seed} obligations={self.cov['obligations']} discharged={self.cov['discharged']} "
              f"evaluations={self.cov['evaluations']} violations={len(self.violations)} wall={wall:.1f}s")
        return code


# ----------------------------------------------------------------------------------------------
# three-way comparison of a stateless op list (each line independent)

def chunked(seq, n):
    k = max(1, (len(seq) + n - 1) // n)
    return [seq[i:i + k] for i in range(0, len(seq), k)]


def differential(check, ops, impl_bin, oracle, signature=None, scope=None, neighbours=None, impl_env=None,
                 stateless=True, label="ops"):
    """Run `ops` (list of strings) through the implementation harness and the Lean driver, compare
    line by line, and evaluate the property oracle on the implementation's answers.

    oracle(toks, impl_line) -> True (property holds here) / False (fails) / None (not judged)
    signature(toks, impl_line) -> str used to match known findings (optional)
    scope(toks) -> False if the line is outside the property's scope (compared, not judged)
    neighbours(toks) -> extra op strings to try when impl and model disagree (search)
    Returns dict(impl=[...], model=[...], mismatches=[...]).
    """
    chunks = chunked(ops, NCPU if stateless else 1)

    def run_chunk(ch):
        text = "\n".join(ch) + "\n"
        # the harness may die on an op (sanitizer report, unexpected signal): that op's result is
        # `<crash>`, the rest of the chunk is re-run after it (stateless engines only)
        il, crashes, rest, rc, ierr = [], [], ch, 0, ""
        for attempt in range(14):
            env = dict(impl_env or {})
            if attempt > 0:
                env["VH_FLUSH"] = "1"   # after a crash: flush per line so the crashing op can be located
            rc, part, ierr = run_lines(impl_bin, "\n".join(rest) + "\n", env_extra=env)
            if attempt == 0 and not (rc == 0 and len(part) == len(rest)):
                continue  # re-run the same ops with per-line flushing
            if rc == 0 and len(part) == len(rest):
                il += part
                rest = []
                break
            part = part[:len(rest)]
            il += part
            if len(part) < len(rest):
                crashes.append((rest[len(part)], rc, ierr[-1500:]))
                il.append("<crash>")
                rest = rest[len(part) + 1:]
            if not stateless or not rest:
                break
        il += ["<crash>"] * (len(ch) - len(il))
        rc2, ml, merr = run_model(text)
        return crashes, il, ierr, rc2, ml, merr

    results = run_parallel(run_chunk, chunks)
    impl, model = [], []
    for ch, (crashes, il, ierr, rc2, ml, merr) in zip(chunks, results):
        for op, rc, err in crashes[:5]:
            check.fail(f"harness terminated abnormally (rc={rc}) on `{op}` while running {label}",
                       {"op": op, "stderr_tail": err}, signature="harness-crash:" + label, found=True)
        if rc2 != 0 or len(ml) != len(ch):
            raise SystemExit(f"infrastructure error: model driver failed rc={rc2} {merr[-500:]}")
        impl += il[:len(ch)]
        model += ml
    mism = []
    judged = 0
    out_scope = 0
    for op, a, b in zip(ops, impl, model):
        toks = op.split()
        in_scope = True if scope is None else scope(toks)
        verdict = oracle(toks, a) if in_scope else None
        if not in_scope:
            out_scope += 1
        if verdict is not None:
            judged += 1
        if verdict is False:
            sig = signature(toks, a) if signature else None
            check.fail(f"property oracle fails on the implementation: `{op}` -> `{a}` (model says `{b}`)",
                       {"op": op, "impl": a, "model": b, "oracle": "fail"}, signature=sig, found=True)
        if a != b:
            mism.append((op, a, b, verdict))
    # correspondence broken: search around the disagreeing inputs before reporting
    if mism:
        found_any = any(v is False for (_, _, _, v) in mism)
        if not found_any and neighbours is not None:
            extra = []
            for op, a, b, v in mism[:200]:
                extra += neighbours(op.split())
            extra = list(dict.fromkeys(extra))[:20000]
            if extra:
                rc, il, ierr = run_lines(impl_bin, "\n".join(extra) + "\n", env_extra=impl_env)
                for op, a in zip(extra, il):
                    toks = op.split()
                    if scope is not None and not scope(toks):
                        continue
                    if oracle(toks, a) is False:
                        found_any = True
                        sig = signature(toks, a) if signature else None
                        check.fail(f"property oracle fails on the implementation (found by neighbourhood search): `{op}` -> `{a}`",
                                   {"op": op, "impl": a, "oracle": "fail", "found_by": "search around correspondence break"},
                                   signature=sig, found=True)
        if not found_any:
            check.fail(f"correspondence model/implementation broke on {len(mism)} of {len(ops)} {label}; "
                       f"first: `{mism[0][0]}` impl=`{mism[0][1]}` model=`{mism[0][2]}`",
                       {"correspondence": label, "disagreements": [dict(op=o, impl=a, model=b) for o, a, b, _ in mism[:50]]},
                       signature=None, found=False)
    check.cov["evaluations"] += len(ops)
    check.cov.setdefault("judged_by_oracle", 0)
    check.cov["judged_by_oracle"] += judged
    check.cov.setdefault("outside_property_scope", 0)
    check.cov["outside_property_scope"] += out_scope
    check.cov.setdefault("correspondence_disagreements", 0)
    check.cov["correspondence_disagreements"] += len(mism)
    return {"impl": impl, "model": model, "mismatches": mism}


def differential_blocks(check, blocks, impl_bin, oracle_block, label="histories", impl_env=None, shrink=True):
    """Stateful engines: `blocks` is a list of op lists, each a self-contained history (it starts with
    the op that resets the engine's state).  Both sides run whole blocks; lines are compared one by
    one; `oracle_block(ops, impl_lines)` returns a list of (index, message, signature) property
    failures observed on the implementation's answers."""
    groups = chunked(blocks, NCPU * 2)

    def run_group(g):
        text = "\n".join("\n".join(b) for b in g) + "\n"
        n = sum(len(b) for b in g)
        rc, il, ierr = run_lines(impl_bin, text, env_extra=impl_env)
        crashed = None
        if rc != 0 or len(il) != n:
            # the harness died inside some history: locate the op (per-line flushing), mark the rest of THAT history
            # `<crash>`, and carry on with the histories after it in a fresh process
            il, rest, attempts = [], list(g), 0
            while rest:
                t2 = "\n".join("\n".join(b) for b in rest) + "\n"
                n2 = sum(len(b) for b in rest)
                rc, part, ierr = run_lines(impl_bin, t2, env_extra=dict(impl_env or {}, VH_FLUSH="1"))
                if rc == 0 and len(part) == n2:
                    il += part
                    break
                attempts += 1
                if crashed is None:
                    crashed = (rc, ierr[-1500:], len(il) + len(part))
                part = part[:n2]
                pos, k = 0, 0
                while k < len(rest) and pos + len(rest[k]) <= len(part):
                    pos += len(rest[k]); k += 1
                if k >= len(rest):
                    il += part
                    break
                blk = rest[k]
                il += part[:pos] + (part[pos:] + ["<crash>"] * len(blk))[:len(blk)]
                rest = rest[k + 1:]
                if attempts >= 25:
                    il += ["<notrun>"] * sum(len(b) for b in rest)   # too many crashing histories in this group: the rest is not executed
                    break
            il = (il + ["<notrun>"] * n)[:n]
        rc2, ml, merr = run_model(text)
        if rc2 != 0 or len(ml) != n:
            raise SystemExit(f"infrastructure error: model driver failed rc={rc2} lines={len(ml)}/{n} {merr[-500:]}")
        return il, ml, crashed

    results = run_parallel(run_group, groups)
    n_ops = 0
    n_mis = 0
    first_mis = None
    prop_fail = 0
    out = []
    for g, (il, ml, crashed) in zip(groups, results):
        pos = 0
        for b in g:
            a = il[pos:pos + len(b)]
            m = ml[pos:pos + len(b)]
            pos += len(b)
            n_ops += len(b)
            out.append((b, a, m))
            if "<notrun>" in a:
                continue
            fails = oracle_block(b, a)
            for idx, msg, sig in fails[:3]:
                # a failure that is a listed known finding does not count: a correspondence break next to it is still reported
                if check.fail(f"property oracle fails on the implementation at step {idx} of a history: {msg}",
                              {"history": b[:idx + 1], "impl": a[:idx + 1], "model": m[:idx + 1], "oracle": msg}, signature=sig, found=True):
                    prop_fail += 1
            if a != m:
                k = next(i for i in range(len(b)) if a[i] != m[i])
                n_mis += 1
                if first_mis is None:
                    first_mis = {"history": b[:k + 1], "impl": a[:k + 1], "model": m[:k + 1]}
        if crashed is not None and not any("<crash>" in x for x in il):
            check.fail(f"harness terminated abnormally (rc={crashed[0]}) while running {label}", {"stderr_tail": crashed[1]},
                       signature="harness-crash:" + label, found=True)
    if n_mis and not prop_fail:
        check.fail(f"correspondence model/implementation broke on {n_mis} of {len(blocks)} {label}; first divergence: "
                   f"`{first_mis['history'][-1]}` impl=`{first_mis['impl'][-1]}` model=`{first_mis['model'][-1]}`",
                   {"correspondence": label, "first": first_mis}, found=False)
    check.cov["evaluations"] += n_ops
    check.cov.setdefault("histories", 0)
    check.cov["histories"] += len(blocks)
    check.cov.setdefault("correspondence_disagreements", 0)
    check.cov["correspondence_disagreements"] += n_mis
    return out
